#!/bin/bash
# BOUNDED differential validation of the assumed contracts (see zz_assumed_contracts_test.go): the test file is injected
# into /repo's types package with `go test -overlay` (nothing is written into /repo).  Prints one summary line per test
# and exits non-zero if an assumed contract disagrees with the real library on a sampled input.
export GOFLAGS=-mod=mod GOPROXY=off GOSUMDB=off GOTOOLCHAIN=local
S=$(mktemp -d); cp /repo/go.mod $S/go.mod; cp /repo/go.sum $S/go.sum
printf '{"Replace":{"/repo/types/zz_assumed_contracts_test.go":"/verif/validate/zz_assumed_contracts_test.go"}}' > $S/ov.json
(cd /repo && go test -modfile=$S/go.mod -overlay $S/ov.json -vet=off -count=1 -timeout 600s -run 'TestAssumed' -v ./types/) 2>&1 | grep -E "^(=== RUN|--- |ok|FAIL|panic|\s+zz_)" | grep -v "=== RUN"
RC=${PIPESTATUS[0]}
rm -rf $S
exit $RC
