package types

// BOUNDED differential validation of the assumed contracts in /verif/trusted/*.spec against the real library code
// (cosmossdk.io/math, cosmos-sdk types, time, strings, fmt).  This is a randomised test with a stated bound
// (N cases per contract, seeded by VERIF_SEED); it is labelled bounded in the evidence and never counted as proved.
// The oracles below restate each assumed contract with math/big.

import (
	"fmt"
	"math/big"
	"math/rand"
	"os"
	"strconv"
	"strings"
	"testing"
	"time"

	sdkmath "cosmossdk.io/math"
	sdk "github.com/cosmos/cosmos-sdk/types"
)

const nCases = 20000

func seed() int64 {
	s, _ := strconv.ParseInt(os.Getenv("VERIF_SEED"), 10, 64)
	return s + 1
}

func panics(f func()) (p bool) {
	defer func() {
		if recover() != nil {
			p = true
		}
	}()
	f()
	return false
}

func rndBig(r *rand.Rand, maxBits int) *big.Int {
	bits := r.Intn(maxBits + 1)
	switch r.Intn(8) {
	case 0:
		bits = maxBits
	case 1:
		bits = maxBits - 1
	}
	x := new(big.Int).Rand(r, new(big.Int).Lsh(big.NewInt(1), uint(bits)))
	if r.Intn(6) == 0 { // exact powers of two and neighbours
		x = new(big.Int).Lsh(big.NewInt(1), uint(bits))
		x.Add(x, big.NewInt(int64(r.Intn(3)-1)))
	}
	if r.Intn(2) == 0 {
		x.Neg(x)
	}
	return x
}

var p256 = new(big.Int).Lsh(big.NewInt(1), 256)
var p255 = new(big.Int).Lsh(big.NewInt(1), 255)
var p315 = new(big.Int).Lsh(big.NewInt(1), 315)
var one18 = new(big.Int).Exp(big.NewInt(10), big.NewInt(18), nil)

func in(x, bound *big.Int) bool { return new(big.Int).Abs(x).Cmp(bound) < 0 }

func mkInt(t *testing.T, x *big.Int) (sdkmath.Int, bool) {
	if !in(x, p256) {
		return sdkmath.Int{}, false
	}
	return sdkmath.NewIntFromBigInt(x), true
}

func TestAssumedIntArithmetic(t *testing.T) {
	r := rand.New(rand.NewSource(seed()))
	for k := 0; k < nCases; k++ {
		a, b := rndBig(r, 256), rndBig(r, 256)
		ia, ok1 := mkInt(t, a)
		ib, ok2 := mkInt(t, b)
		if !ok1 || !ok2 {
			continue
		}
		// Add / Sub: panic iff the result leaves (-2^256, 2^256)
		sum := new(big.Int).Add(a, b)
		if p := panics(func() { _ = ia.Add(ib) }); p != !in(sum, p256) {
			t.Fatalf("Int.Add panic mismatch for %s + %s", a, b)
		} else if !p && ia.Add(ib).BigInt().Cmp(sum) != 0 {
			t.Fatalf("Int.Add value")
		}
		diff := new(big.Int).Sub(a, b)
		if p := panics(func() { _ = ia.Sub(ib) }); p != !in(diff, p256) {
			t.Fatalf("Int.Sub panic mismatch for %s - %s", a, b)
		}
		// Mul: the contract only promises no panic below 2^255 in magnitude (the library's pre-check is coarser)
		prod := new(big.Int).Mul(a, b)
		if in(prod, p255) {
			if panics(func() { _ = ia.Mul(ib) }) {
				t.Fatalf("Int.Mul panics although |a*b| < 2^255: %s * %s", a, b)
			}
			if ia.Mul(ib).BigInt().Cmp(prod) != 0 {
				t.Fatalf("Int.Mul value")
			}
		}
		// Int64 / Uint64 range panics
		if p := panics(func() { _ = ia.Int64() }); p != !a.IsInt64() {
			t.Fatalf("Int.Int64 panic mismatch for %s", a)
		}
		if p := panics(func() { _ = ia.Uint64() }); p != !a.IsUint64() {
			t.Fatalf("Int.Uint64 panic mismatch for %s", a)
		}
		if b.Sign() != 0 {
			q := new(big.Int).Quo(a, b) // truncated division
			if ia.Quo(ib).BigInt().Cmp(q) != 0 {
				t.Fatalf("Int.Quo is not truncated division for %s / %s", a, b)
			}
		}
		if n := int64(r.Intn(1_000_000_000) + 1); a.Sign() >= 0 {
			m := new(big.Int).Mod(a, big.NewInt(n))
			if ia.ModRaw(n).BigInt().Cmp(m) != 0 {
				t.Fatalf("Int.ModRaw")
			}
		}
	}
}

func chopRound(p *big.Int) *big.Int { // banker's rounding of p / 10^18
	neg := p.Sign() < 0
	a := new(big.Int).Abs(p)
	q, rem := new(big.Int).QuoRem(a, one18, new(big.Int))
	half := new(big.Int).Quo(one18, big.NewInt(2))
	switch rem.Cmp(half) {
	case 1:
		q.Add(q, big.NewInt(1))
	case 0:
		if q.Bit(0) == 1 {
			q.Add(q, big.NewInt(1))
		}
	}
	if neg {
		q.Neg(q)
	}
	return q
}

func TestAssumedDecArithmetic(t *testing.T) {
	r := rand.New(rand.NewSource(seed()))
	for k := 0; k < nCases; k++ {
		a, b := rndBig(r, 200), rndBig(r, 100)
		da := sdkmath.LegacyNewDecFromBigIntWithPrec(a, 18)
		db := sdkmath.LegacyNewDecFromBigIntWithPrec(b, 18)
		want := chopRound(new(big.Int).Mul(a, b))
		if in(want, p315) {
			got := da.Mul(db).BigInt()
			if got.Cmp(want) != 0 {
				t.Fatalf("Dec.Mul rounding: %s * %s = %s, contract says %s", a, b, got, want)
			}
		}
		if tr := da.TruncateInt().BigInt(); tr.Cmp(new(big.Int).Quo(a, one18)) != 0 {
			t.Fatalf("Dec.TruncateInt is not truncation toward zero for %s", a)
		}
		tq := new(big.Int).Quo(a, one18)
		if p := panics(func() { _ = da.TruncateInt64() }); p != !tq.IsInt64() {
			t.Fatalf("Dec.TruncateInt64 panic mismatch for %s", a)
		}
		if b.Sign() != 0 {
			w := new(big.Int).Quo(new(big.Int).Quo(new(big.Int).Mul(new(big.Int).Mul(a, one18), one18), b), one18)
			if in(w, p315) {
				if g := da.QuoTruncate(db).BigInt(); g.Cmp(w) != 0 {
					t.Fatalf("Dec.QuoTruncate: %s / %s = %s, contract says %s", a, b, g, w)
				}
			}
		}
		if i := int64(r.Intn(2_000_000_000)); true {
			w := new(big.Int).Mul(a, big.NewInt(i))
			if in(w, p315) && da.MulInt64(i).BigInt().Cmp(w) != 0 {
				t.Fatalf("Dec.MulInt64")
			}
		}
	}
}

func TestAssumedDecimalText(t *testing.T) {
	r := rand.New(rand.NewSource(seed()))
	for k := 0; k < nCases; k++ {
		n := rndBig(r, 200)
		// decVal(intStr(n)) == n * 10^18
		d, err := sdkmath.LegacyNewDecFromStr(n.String())
		if err != nil || d.BigInt().Cmp(new(big.Int).Mul(n, one18)) != 0 {
			t.Fatalf("parsing the decimal text of %s", n)
		}
		if sdkmath.NewIntFromBigInt(n).String() != n.String() {
			t.Fatalf("Int.String")
		}
		// decVal(fmt3("", intStr(q), r)) == q*10^18 + r*10^9
		q := new(big.Int).Abs(rndBig(r, 150))
		rem := int64(r.Intn(1_000_000_000))
		txt := fmt.Sprintf("%s%s.%09d", "", q.String(), rem)
		d2, err := sdkmath.LegacyNewDecFromStr(txt)
		want := new(big.Int).Add(new(big.Int).Mul(q, one18), new(big.Int).Mul(big.NewInt(rem), big.NewInt(1_000_000_000)))
		if err != nil || d2.BigInt().Cmp(want) != 0 {
			t.Fatalf("parsing %q", txt)
		}
	}
}

func TestAssumedCoinsAndAddresses(t *testing.T) {
	r := rand.New(rand.NewSource(seed()))
	for k := 0; k < nCases/10; k++ {
		// addresses of every legal length: String then FromBech32 gives the same bytes; upper case spelling too
		l := 1 + r.Intn(255)
		a := make([]byte, l)
		r.Read(a)
		s := sdk.AccAddress(a).String()
		b, err := sdk.AccAddressFromBech32(s)
		if err != nil || !sdk.AccAddress(a).Equals(b) {
			t.Fatalf("bech32 round trip for length %d", l)
		}
		if u, err := sdk.AccAddressFromBech32(strings.ToUpper(s)); err != nil || !u.Equals(b) {
			t.Fatalf("upper-case spelling does not decode to the same address (contract: addrOf is not injective)")
		}
		// a string accepted by sdk.ValidateDenom contains no white space: strings.TrimSpace leaves it unchanged
		// (and the validity test is the length window 3..128 plus a character class, as validDenom states)
		{
			const cs = "abcXYZ019/:._- \t\n\u00a0!"
			n := r.Intn(132)
			bs := make([]byte, n)
			for i := range bs {
				if r.Intn(12) == 0 {
					bs[i] = cs[r.Intn(len(cs))]
				} else {
					bs[i] = cs[r.Intn(15)]
				}
			}
			d := string(bs)
			if sdk.ValidateDenom(d) == nil {
				if strings.TrimSpace(d) != d {
					t.Fatalf("valid denomination %q is changed by TrimSpace", d)
				}
				if len(d) < 3 || len(d) > 128 {
					t.Fatalf("valid denomination %q outside the length window", d)
				}
			}
		}
		// Coin.Sub panics iff negative or denom mismatch; Coins.AmountOf / SafeSub on one coin
		x, y := int64(r.Intn(1000)), int64(r.Intn(1000))
		cx, cy := sdk.NewInt64Coin("nund", x), sdk.NewInt64Coin("nund", y)
		if p := panics(func() { _ = cx.Sub(cy) }); p != (x < y) {
			t.Fatalf("Coin.Sub panic mismatch %d - %d", x, y)
		}
		if !panics(func() { _ = cx.Add(sdk.NewInt64Coin("other", 1)) }) {
			t.Fatalf("Coin.Add with another denomination must panic")
		}
		coins := sdk.NewCoins(cx, sdk.NewInt64Coin("aaa", 5))
		if coins.AmountOf("nund").Int64() != x {
			t.Fatalf("Coins.AmountOf")
		}
		_, neg := coins.SafeSub(cy)
		if y > 0 && neg != (x < y) {
			t.Fatalf("Coins.SafeSub hasNeg mismatch")
		}
		found, c := coins.Find("nund")
		if found != (x > 0) || (found && c.Amount.Int64() != x) {
			t.Fatalf("Coins.Find")
		}
	}
}

func TestAssumedTime(t *testing.T) {
	r := rand.New(rand.NewSource(seed()))
	for k := 0; k < nCases; k++ {
		s1, s2 := r.Int63n(1<<40)-(1<<39), r.Int63n(1<<40)-(1<<39)
		n1, n2 := r.Int63n(1_000_000_000), r.Int63n(1_000_000_000)
		if k%5 == 0 {
			s1, s2 = r.Int63n(1<<36)+200_000_000_000, -r.Int63n(1<<35)
		}
		t1, t2 := time.Unix(s1, n1), time.Unix(s2, n2)
		ns1 := new(big.Int).Add(new(big.Int).Mul(big.NewInt(s1), big.NewInt(1_000_000_000)), big.NewInt(n1))
		ns2 := new(big.Int).Add(new(big.Int).Mul(big.NewInt(s2), big.NewInt(1_000_000_000)), big.NewInt(n2))
		d := new(big.Int).Sub(ns1, ns2)
		want := d
		if !d.IsInt64() { // Sub saturates
			if d.Sign() > 0 {
				want = big.NewInt(1<<63 - 1)
			} else {
				want = big.NewInt(-1 << 63)
			}
		}
		if int64(t1.Sub(t2)) != want.Int64() {
			t.Fatalf("Time.Sub is not the clamped difference")
		}
		if t1.After(t2) != (ns1.Cmp(ns2) > 0) || t1.Before(t2) != (ns1.Cmp(ns2) < 0) {
			t.Fatalf("Time.After/Before")
		}
		if t1.Unix() != s1 || int64(t1.Nanosecond()) != n1 {
			t.Fatalf("Time.Unix/Nanosecond")
		}
	}
	if !strings.EqualFold("AbC", "AbC") {
		t.Fatalf("EqualFold is not reflexive")
	}
}
