package keeper_test

// FINDING D10: completing an enterprise purchase order for a purchaser whose account is a vesting account
// turns that account's unvested (unspendable) coins into spendable coins. MintCoinsAndLock sends the newly
// minted eFUND to the account and then "locks" it with DelegateCoinsFromAccountToModule; the bank module's
// delegation bookkeeping (TrackDelegation) draws on still-vesting coins first, so the 600 delegated coins are
// booked as DelegatedVesting and LockedCoins (= vesting - delegatedVesting) shrinks by 600.
//
// Copy into x/enterprise/keeper/ and run:
//   go test -vet=off -count=1 -run TestFindingD10 ./x/enterprise/keeper/

import (
	"testing"
	"time"

	tmproto "github.com/cometbft/cometbft/proto/tendermint/types"
	"github.com/cosmos/cosmos-sdk/crypto/keys/secp256k1"
	sdk "github.com/cosmos/cosmos-sdk/types"
	authtypes "github.com/cosmos/cosmos-sdk/x/auth/types"
	vestingtypes "github.com/cosmos/cosmos-sdk/x/auth/vesting/types"
	"github.com/stretchr/testify/require"

	simapp "github.com/unification-com/mainchain/app"
	"github.com/unification-com/mainchain/x/enterprise/types"
)

func TestFindingD10MintAndLockUnlocksVestingCoins(t *testing.T) {
	denom := simapp.TestDenomination

	app := simapp.Setup(t, false)
	now := time.Unix(1700000000, 0)
	ctx := app.BaseApp.NewContext(false, tmproto.Header{Height: 10, Time: now})
	simapp.SetKeeperTestParamsAndDefaultValues(app, ctx)

	addr := sdk.AccAddress(secp256k1.GenPrivKey().PubKey().Address())
	origVesting := sdk.NewCoins(sdk.NewInt64Coin(denom, 1000))

	// delayed vesting account: nothing vests before endTime (one year from "now")
	baseAcc := authtypes.NewBaseAccountWithAddress(addr)
	baseAcc.AccountNumber = app.AccountKeeper.NextAccountNumber(ctx)
	vestAcc := vestingtypes.NewDelayedVestingAccount(baseAcc, origVesting, now.Add(365*24*time.Hour).Unix())
	app.AccountKeeper.SetAccount(ctx, vestAcc)

	// fund it with exactly the original vesting amount
	require.NoError(t, app.BankKeeper.MintCoins(ctx, types.ModuleName, origVesting))
	require.NoError(t, app.BankKeeper.SendCoinsFromModuleToAccount(ctx, types.ModuleName, addr, origVesting))

	require.Equal(t, "1000"+denom, app.BankKeeper.GetAllBalances(ctx, addr).String())
	require.Equal(t, "1000"+denom, app.BankKeeper.LockedCoins(ctx, addr).String())
	require.True(t, app.BankKeeper.SpendableCoins(ctx, addr).IsZero(), "everything is still vesting: nothing is spendable")

	// a purchase order for 600 is completed: 600 eFUND are minted and are supposed to be LOCKED
	eFund := sdk.NewInt64Coin(denom, 600)
	require.NoError(t, app.EnterpriseKeeper.MintCoinsAndLock(ctx, addr, eFund))

	// the enterprise bookkeeping says 600 are locked ...
	require.Equal(t, eFund, app.EnterpriseKeeper.GetLockedUndAmountForAccount(ctx, addr))
	// ... and the bank balance is back at 1000 (600 were sent in and 600 delegated away again)
	require.Equal(t, "1000"+denom, app.BankKeeper.GetAllBalances(ctx, addr).String())

	spendable := app.BankKeeper.SpendableCoins(ctx, addr)
	locked := app.BankKeeper.LockedCoins(ctx, addr)
	t.Logf("after MintCoinsAndLock: balance=%s bank-locked(vesting)=%s spendable=%s enterprise-locked=%s",
		app.BankKeeper.GetAllBalances(ctx, addr), locked, spendable, app.EnterpriseKeeper.GetLockedUndAmountForAccount(ctx, addr))

	// CORRECT BEHAVIOUR: spendable is still 0: the 1000 original coins are unvested until endTime and the 600
	// new eFUND are locked by the enterprise module (usable for WRKChain/BEACON fees only).
	// DEFECT: 600 of the unvested coins have become freely spendable.
	require.Equal(t, "600"+denom, spendable.String())
	require.Equal(t, "400"+denom, locked.String())

	dva, ok := app.AccountKeeper.GetAccount(ctx, addr).(*vestingtypes.DelayedVestingAccount)
	require.True(t, ok)
	require.Equal(t, "600"+denom, dva.DelegatedVesting.String()) // the eFUND "lock" was booked against vesting coins
	require.True(t, dva.DelegatedFree.IsZero())

	// the purchaser can really move the 600 unvested coins to any other account, one year before they vest
	other := sdk.AccAddress(secp256k1.GenPrivKey().PubKey().Address())
	require.NoError(t, app.BankKeeper.SendCoins(ctx, addr, other, sdk.NewCoins(sdk.NewInt64Coin(denom, 600))))
	require.Equal(t, "600"+denom, app.BankKeeper.GetAllBalances(ctx, other).String())
}
