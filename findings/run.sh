#!/bin/bash
# Runs the demonstrations of the recorded known findings against the real code of /repo (nothing is written into /repo:
# the test files are injected with `go test -overlay`).  Each test PASSES when the defect is present.
set -u
export GOFLAGS=-mod=mod GOPROXY=off GOSUMDB=off GOTOOLCHAIN=local
S=$(mktemp -d); cp /repo/go.mod $S/go.mod; cp /repo/go.sum $S/go.sum
run() { # file pkgdir testname
  printf '{"Replace":{"/repo/%s/zz_finding_test.go":"/verif/findings/%s"}}' "$2" "$1" > $S/ov.json
  (cd /repo && go test -modfile=$S/go.mod -overlay $S/ov.json -vet=off -count=1 -timeout 300s -run "$3" ./$2/) 2>&1 | tail -3
}
run D8_authz_fee_bypass_test.go app TestFindingD8
run D17_denom_change_halts_test.go x/enterprise/keeper TestFindingD17
run D10_vesting_spendable_test.go x/enterprise/keeper TestFindingD10
rm -rf $S
