package app_test

// FINDING D8: the WRKChain / BEACON fee decorators (x/wrkchain/ante, x/beacon/ante) and the enterprise
// unlock decorator (x/enterprise/ante) only inspect the TOP-LEVEL messages of a transaction
// (x/wrkchain/exported.CheckIsWrkChainTx iterates tx.GetMsgs() only). A MsgRecordWrkChainBlock that is
// wrapped in an authz MsgExec is therefore not recognised as a WRKChain message: the fixed WRKChain record
// fee (params.FeeRecord) is never demanded and the block hash is recorded for free.
//
// Copy into app/ and run:
//   go test -vet=off -count=1 -run TestFindingD8 ./app/

import (
	"math/rand"
	"testing"

	abci "github.com/cometbft/cometbft/abci/types"
	tmproto "github.com/cometbft/cometbft/proto/tendermint/types"
	"github.com/cosmos/cosmos-sdk/crypto/keys/secp256k1"
	simtestutil "github.com/cosmos/cosmos-sdk/testutil/sims"
	sdk "github.com/cosmos/cosmos-sdk/types"
	"github.com/cosmos/cosmos-sdk/x/authz"
	"github.com/stretchr/testify/require"

	simapp "github.com/unification-com/mainchain/app"
	enttypes "github.com/unification-com/mainchain/x/enterprise/types"
	wrkchaintypes "github.com/unification-com/mainchain/x/wrkchain/types"
)

func TestFindingD8AuthzExecBypassesWrkChainRecordFee(t *testing.T) {
	const chainID = "" // app.Setup calls InitChain without a chain id
	const gasLimit = uint64(500000)
	denom := simapp.TestDenomination

	r := rand.New(rand.NewSource(1))
	app := simapp.Setup(t, false) // leaves the app inside BeginBlock of height 2
	txConfig := simapp.MakeEncodingConfig().TxConfig

	header := tmproto.Header{Height: app.LastBlockHeight() + 1}
	ctx := app.BaseApp.NewContext(false, header) // deliver state of the open block

	// ---- block 2: set-up, written directly through the keepers ----
	simapp.SetKeeperTestParamsAndDefaultValues(app, ctx) // WRKChain fees: register 24, record 2, denom "stake"
	wrkParams := app.WrkchainKeeper.GetParams(ctx)
	require.Equal(t, denom, wrkParams.Denom)
	require.True(t, wrkParams.FeeRecord > 0)
	recordFee := sdk.NewCoins(sdk.NewInt64Coin(denom, int64(wrkParams.FeeRecord)))

	ownerKey, granteeKey := secp256k1.GenPrivKey(), secp256k1.GenPrivKey()
	owner := sdk.AccAddress(ownerKey.PubKey().Address())     // O: WRKChain owner
	grantee := sdk.AccAddress(granteeKey.PubKey().Address()) // G: holds an authz grant from O

	startBalance := sdk.NewCoins(sdk.NewInt64Coin(denom, 1000))
	for _, a := range []sdk.AccAddress{owner, grantee} {
		require.NoError(t, app.BankKeeper.MintCoins(ctx, enttypes.ModuleName, startBalance))
		require.NoError(t, app.BankKeeper.SendCoinsFromModuleToAccount(ctx, enttypes.ModuleName, a, startBalance))
	}

	// (1) register a WRKChain owned by O
	wrkchainID, err := app.WrkchainKeeper.RegisterNewWrkChain(ctx, "finding-d8", "Finding D8", "genesishash", "geth", owner)
	require.NoError(t, err)

	// (3) O grants G a generic authorization for MsgRecordWrkChainBlock
	recordTypeURL := sdk.MsgTypeURL(&wrkchaintypes.MsgRecordWrkChainBlock{})
	require.NoError(t, app.AuthzKeeper.SaveGrant(ctx, grantee, owner, authz.NewGenericAuthorization(recordTypeURL), nil))

	ownerAccNum := app.AccountKeeper.GetAccount(ctx, owner).GetAccountNumber()
	granteeAccNum := app.AccountKeeper.GetAccount(ctx, grantee).GetAccountNumber()

	// commit block 2 (so that the check state sees the set-up) and open block 3
	app.EndBlock(abci.RequestEndBlock{Height: header.Height})
	app.Commit()
	header = tmproto.Header{Height: app.LastBlockHeight() + 1}
	app.BeginBlock(abci.RequestBeginBlock{Header: header})

	encode := func(msgs []sdk.Msg, fee sdk.Coins, accNum, seq uint64, key *secp256k1.PrivKey) []byte {
		tx, err := simtestutil.GenSignedMockTx(r, txConfig, msgs, fee, gasLimit, chainID, []uint64{accNum}, []uint64{seq}, key)
		require.NoError(t, err)
		bz, err := txConfig.TxEncoder()(tx)
		require.NoError(t, err)
		return bz
	}
	deliverCtx := func() sdk.Context { return app.BaseApp.NewContext(false, header) }
	balanceOf := func(a sdk.AccAddress) sdk.Coins { return app.BankKeeper.GetAllBalances(deliverCtx(), a) }

	// (2) top-level MsgRecordWrkChainBlock from O with a zero fee, or with less than the record fee: rejected
	rec1 := wrkchaintypes.NewMsgRecordWrkChainBlock(wrkchainID, 1, "blockhash-1", "", "", "", "", owner)
	resCheck := app.CheckTx(abci.RequestCheckTx{Tx: encode([]sdk.Msg{rec1}, sdk.NewCoins(), ownerAccNum, 0, ownerKey), Type: abci.CheckTxType_New})
	t.Logf("top-level record, zero fee    : CheckTx code=%d codespace=%q log=%q", resCheck.Code, resCheck.Codespace, resCheck.Log)
	require.NotEqual(t, uint32(0), resCheck.Code)
	require.Equal(t, wrkchaintypes.ErrIncorrectFeeDenomination.ABCICode(), resCheck.Code)
	require.Equal(t, wrkchaintypes.ModuleName, resCheck.Codespace)

	tooLittle := sdk.NewCoins(sdk.NewInt64Coin(denom, int64(wrkParams.FeeRecord)-1))
	resCheck = app.CheckTx(abci.RequestCheckTx{Tx: encode([]sdk.Msg{rec1}, tooLittle, ownerAccNum, 0, ownerKey), Type: abci.CheckTxType_New})
	t.Logf("top-level record, fee %-8s: CheckTx code=%d codespace=%q log=%q", tooLittle, resCheck.Code, resCheck.Codespace, resCheck.Log)
	require.Equal(t, wrkchaintypes.ErrInsufficientWrkChainFee.ABCICode(), resCheck.Code)
	require.Equal(t, wrkchaintypes.ModuleName, resCheck.Codespace)

	// control: the same message with the correct record fee is accepted, and O pays the record fee
	paidTx := encode([]sdk.Msg{rec1}, recordFee, ownerAccNum, 0, ownerKey)
	resCheck = app.CheckTx(abci.RequestCheckTx{Tx: paidTx, Type: abci.CheckTxType_New})
	require.Equal(t, uint32(0), resCheck.Code, resCheck.Log)
	resDeliver := app.DeliverTx(abci.RequestDeliverTx{Tx: paidTx})
	require.Equal(t, uint32(0), resDeliver.Code, resDeliver.Log)
	t.Logf("top-level record, fee %-8s: CheckTx code=0, DeliverTx code=%d, owner balance %s -> %s", recordFee, resDeliver.Code, startBalance, balanceOf(owner))
	require.Equal(t, startBalance.Sub(recordFee...), balanceOf(owner))
	_, found := app.WrkchainKeeper.GetWrkChainBlock(deliverCtx(), wrkchainID, 1)
	require.True(t, found)

	// (4) G sends MsgExec{ MsgRecordWrkChainBlock{Owner: O} } with a ZERO fee
	ownerBefore, granteeBefore := balanceOf(owner), balanceOf(grantee)
	rec2 := wrkchaintypes.NewMsgRecordWrkChainBlock(wrkchainID, 2, "blockhash-2", "", "", "", "", owner)
	exec := authz.NewMsgExec(grantee, []sdk.Msg{rec2})
	execTx := encode([]sdk.Msg{&exec}, sdk.NewCoins(), granteeAccNum, 0, granteeKey)

	// CORRECT BEHAVIOUR: the transaction is rejected (non-zero code), either because WRKChain messages nested
	// in MsgExec are refused or because the record fee (2stake) is demanded for the nested message as well.
	// DEFECT: it passes CheckTx and DeliverTx with code 0 ...
	resCheck = app.CheckTx(abci.RequestCheckTx{Tx: execTx, Type: abci.CheckTxType_New})
	require.Equal(t, uint32(0), resCheck.Code, resCheck.Log)
	resDeliver = app.DeliverTx(abci.RequestDeliverTx{Tx: execTx})
	require.Equal(t, uint32(0), resDeliver.Code, resDeliver.Log)

	// ... the WRKChain block hash IS recorded ...
	block, found := app.WrkchainKeeper.GetWrkChainBlock(deliverCtx(), wrkchainID, 2)
	require.True(t, found, "DEFECT: hash recorded through authz MsgExec without the WRKChain fee")
	require.Equal(t, "blockhash-2", block.Blockhash)
	wc, _ := app.WrkchainKeeper.GetWrkChain(deliverCtx(), wrkchainID)
	require.Equal(t, uint64(2), wc.Lastblock)

	// ... and nobody paid anything: neither O nor G
	require.Equal(t, ownerBefore, balanceOf(owner))
	require.Equal(t, granteeBefore, balanceOf(grantee))
	require.Equal(t, startBalance, balanceOf(grantee))
	t.Logf("MsgExec{record}, zero fee     : CheckTx code=%d, DeliverTx code=%d, height 2 recorded=%v, owner balance %s (unchanged), grantee balance %s (unchanged)",
		resCheck.Code, resDeliver.Code, found, balanceOf(owner), balanceOf(grantee))

	// the block can be ended and committed: the free record is final
	app.EndBlock(abci.RequestEndBlock{Height: header.Height})
	app.Commit()
	committed := app.BaseApp.NewContext(true, tmproto.Header{Height: app.LastBlockHeight()})
	_, found = app.WrkchainKeeper.GetWrkChainBlock(committed, wrkchainID, 2)
	require.True(t, found)
}
