package keeper_test

// FINDING D17: changing the enterprise module denomination with MsgUpdateParams while an accepted purchase
// order (denominated in the OLD denomination) is still queued makes the next enterprise BeginBlocker panic.
// BeginBlocker runs inside baseapp.BeginBlock without recovery, so on a live chain every validator panics
// at the same height and block production halts.
//
// Copy into x/enterprise/keeper/ and run:
//   go test -vet=off -count=1 -run TestFindingD17 ./x/enterprise/keeper/

import (
	"fmt"
	"testing"
	"time"

	tmproto "github.com/cometbft/cometbft/proto/tendermint/types"
	"github.com/cosmos/cosmos-sdk/crypto/keys/secp256k1"
	sdk "github.com/cosmos/cosmos-sdk/types"
	"github.com/stretchr/testify/require"

	simapp "github.com/unification-com/mainchain/app"
	"github.com/unification-com/mainchain/x/enterprise"
	"github.com/unification-com/mainchain/x/enterprise/keeper"
	"github.com/unification-com/mainchain/x/enterprise/types"
)

func TestFindingD17DenomChangeWithQueuedOrderHaltsBeginBlocker(t *testing.T) {
	const oldDenom = "nund"
	const newDenom = "nfund"

	app := simapp.Setup(t, false)
	ctx := app.BaseApp.NewContext(false, tmproto.Header{Height: 10, Time: time.Unix(1700000000, 0)})

	signer := sdk.AccAddress(secp256k1.GenPrivKey().PubKey().Address())
	purchaser := sdk.AccAddress(secp256k1.GenPrivKey().PubKey().Address())

	params := types.Params{
		EntSigners:        signer.String(),
		Denom:             oldDenom,
		MinAccepts:        1,
		DecisionTimeLimit: 1000,
	}
	require.NoError(t, app.EnterpriseKeeper.SetParams(ctx, params))
	require.NoError(t, app.EnterpriseKeeper.SetTotalLockedUnd(ctx, sdk.NewInt64Coin(oldDenom, 0)))
	require.NoError(t, app.EnterpriseKeeper.SetTotalSpentEFUND(ctx, sdk.NewInt64Coin(oldDenom, 0)))

	msgServer := keeper.NewMsgServerImpl(app.EnterpriseKeeper)
	goCtx := sdk.WrapSDKContext(ctx)

	// whitelist the purchaser, raise a purchase order in the old denomination, accept it
	_, err := msgServer.WhitelistAddress(goCtx, &types.MsgWhitelistAddress{
		Address: purchaser.String(), Signer: signer.String(), Action: types.WhitelistActionAdd,
	})
	require.NoError(t, err)

	raised, err := msgServer.UndPurchaseOrder(goCtx, &types.MsgUndPurchaseOrder{
		Purchaser: purchaser.String(), Amount: sdk.NewInt64Coin(oldDenom, 1000),
	})
	require.NoError(t, err)

	_, err = msgServer.ProcessUndPurchaseOrder(goCtx, &types.MsgProcessUndPurchaseOrder{
		PurchaseOrderId: raised.PurchaseOrderId, Decision: types.StatusAccepted, Signer: signer.String(),
	})
	require.NoError(t, err)

	// block N: the tally marks the order as accepted and queues it for minting in block N+1
	require.NotPanics(t, func() { enterprise.BeginBlocker(ctx, app.EnterpriseKeeper) })
	po, found := app.EnterpriseKeeper.GetPurchaseOrder(ctx, raised.PurchaseOrderId)
	require.True(t, found)
	require.Equal(t, types.StatusAccepted, po.Status)
	require.Equal(t, []uint64{raised.PurchaseOrderId}, app.EnterpriseKeeper.GetAllAcceptedPurchaseOrders(ctx))

	// still in block N: a governance proposal executes MsgUpdateParams that only changes the denomination.
	// CORRECT BEHAVIOUR: UpdateParams rejects a denomination change while purchase orders are pending /
	// eFUND is locked in the old denomination (or BeginBlocker copes with it). DEFECT: it is accepted.
	params.Denom = newDenom
	_, err = msgServer.UpdateParams(goCtx, &types.MsgUpdateParams{
		Authority: app.EnterpriseKeeper.GetAuthority(),
		Params:    params,
	})
	require.NoError(t, err) // DEFECT: accepted without any check
	require.Equal(t, newDenom, app.EnterpriseKeeper.GetParamDenom(ctx))

	// block N+1: BeginBlocker must never panic (a panic here halts the chain). DEFECT: it panics.
	// Each attempt runs on a cache context that is thrown away, like the uncommitted deliver state of a
	// node that crashed in BeginBlock and is restarted.
	ctx = ctx.WithBlockHeight(11)
	runBeginBlocker := func() (recovered interface{}) {
		defer func() { recovered = recover() }()
		cacheCtx, _ := ctx.CacheContext()
		enterprise.BeginBlocker(cacheCtx, app.EnterpriseKeeper)
		return nil
	}

	recovered := runBeginBlocker()
	t.Logf("BeginBlocker panic value: %v", recovered)
	require.NotNil(t, recovered, "expected the defective behaviour: BeginBlocker panics after the denom change")
	require.Contains(t, fmt.Sprint(recovered), "invalid coin denominations")
	require.Contains(t, fmt.Sprint(recovered), oldDenom)
	require.Contains(t, fmt.Sprint(recovered), newDenom)

	// and it panics in the same way on every retry: the order stays queued, the chain cannot get past this height
	require.Equal(t, fmt.Sprint(recovered), fmt.Sprint(runBeginBlocker()))
	require.Panics(t, func() { enterprise.BeginBlocker(ctx, app.EnterpriseKeeper) })
}
