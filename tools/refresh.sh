#!/bin/bash
# Re-runs every claimed check (quick tier) on the clean /repo tree, so that the committed evidence files describe the
# unchanged tree, and validates MANIFEST.json and the evidence files against their schemas.
cd /verif || exit 2
if [ -n "$(git -C /repo status --porcelain)" ]; then echo "/repo is not clean"; exit 2; fi
RC=0
for p in $(jq -r '.checks[].property_id' MANIFEST.json); do
  /usr/bin/time -f "%es" ./check.sh $p quick > /tmp/refresh_$p.log 2>&1; rc=$?
  echo "$p exit=$rc $(grep '^govc:' /tmp/refresh_$p.log | tail -1) $(tail -1 /tmp/refresh_$p.log)"
  [ $rc -ne 0 ] && RC=1
done
python3-vt - <<'P' || RC=1
import json,jsonschema,glob
jsonschema.validate(json.load(open('/verif/MANIFEST.json')), json.load(open('/root/.vp/MANIFEST.schema.json')))
m=json.load(open('/verif/MANIFEST.json'))
for c in m['checks']:
    e=json.load(open(c['evidence_file']))
    jsonschema.validate(e, json.load(open('/root/.vp/EVIDENCE.schema.json')))
    assert e['coverage']['obligations']==e['coverage']['discharged'], c['property_id']
    assert e.get('violations',0)==0, c['property_id']
print('manifest and evidence valid')
P
exit $RC
