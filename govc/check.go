package main

import (
	"encoding/json"
	"flag"
	"fmt"
	"os"
	"path/filepath"
	"runtime"
	"sort"
	"strconv"
	"strings"
	"sync"
	"time"
)

type KnownFinding struct {
	Property   string `json:"property"`
	Obligation string `json:"obligation"`
	What       string `json:"what"`
	Witness    string `json:"witness,omitempty"`
	Note       string `json:"note,omitempty"`
}

type KnownFile struct {
	Findings []KnownFinding `json:"findings"`
	Fixed    []string       `json:"fixed"`
}

func loadKnown(verif string) *KnownFile {
	kf := &KnownFile{}
	data, err := os.ReadFile(filepath.Join(verif, "known_findings.json"))
	if err != nil {
		return kf
	}
	if err := json.Unmarshal(data, kf); err != nil {
		fatalf("known_findings.json: %v", err)
	}
	return kf
}

type checkCtx struct {
	prop     string
	tier     string
	repo     string
	verif    string
	timeout  time.Duration
	seed     int
	cs       *ContractSet
	prog     *Program
	reports  []*FuncReport
	lemmas   []*Obligation
	frameRes []*FrameResult
}

func cmdCheck(args []string) int {
	fs := flag.NewFlagSet("check", flag.ExitOnError)
	repo := fs.String("repo", "/repo", "")
	verif := fs.String("verif", "/verif", "")
	prop := fs.String("prop", "", "property id")
	tier := fs.String("tier", "quick", "quick|thorough")
	dumpDir := fs.String("dump", "", "directory to dump queries")
	fs.Parse(args)
	repoRoot = strings.TrimSuffix(*repo, "/")
	if *prop == "" {
		fmt.Fprintln(os.Stderr, "check: -prop required")
		return 2
	}
	if t := os.Getenv("VERIF_TIER"); t == "quick" || t == "thorough" {
		*tier = t
	}
	seed, _ := strconv.Atoi(os.Getenv("VERIF_SEED"))
	start := time.Now()
	cc := &checkCtx{prop: *prop, tier: *tier, repo: *repo, verif: *verif, seed: seed}
	cc.timeout = 180 * time.Second
	workers := 8
	// a machine that is already busy (other checks running beside this one) gets fewer solver groups and more time per
	// query: obligations that discharge in seconds on an idle machine must not time out because of the neighbours
	if la := loadAverage(); la > 1.5*float64(runtime.NumCPU()) {
		cc.timeout = 360 * time.Second
		workers = 4
	}
	if *tier == "thorough" {
		if cc.timeout < 240*time.Second {
			cc.timeout = 240 * time.Second
		}
		coverPaths = 1 << 20
	}
	if t, err := strconv.Atoi(os.Getenv("GOVC_QUERY_TIMEOUT")); err == nil && t > 0 {
		cc.timeout = time.Duration(t) * time.Second // used by the self-test, where many obligations are expected to fail
	}
	cc.cs = loadContracts(*repo, *verif)
	known := loadKnown(*verif)

	// functions and lemmas serving this property
	var sel []string
	pkgSet := map[string]bool{}
	for _, k := range cc.cs.SortedKeys() {
		c := cc.cs.ByKey[k]
		if c.Extern || !c.HasProp(*prop) {
			continue
		}
		sel = append(sel, k)
		pkgSet[pkgOfKey(k)] = true
	}
	var lemmas []*Lemma
	for _, lm := range cc.cs.Lemmas {
		for _, p := range lm.Props {
			if p == *prop {
				lemmas = append(lemmas, lm)
				if lm.Pkg != "" {
					pkgSet[lm.Pkg] = true
				}
			}
		}
	}
	// lemmas used by selected lemmas are proved in the same check
	for changed := true; changed; {
		changed = false
		for _, lm := range lemmas {
			for _, st := range lm.Steps {
				if st.Kind == "use" {
					ul := cc.cs.LemmaByName(st.Callee)
					if ul == nil {
						fatalf("lemma %s uses unknown lemma %s", lm.Name, st.Callee)
					}
					have := false
					for _, x := range lemmas {
						if x == ul {
							have = true
						}
					}
					if !have {
						lemmas = append(lemmas, ul)
						changed = true
					}
				}
			}
		}
	}
	if os.Getenv("GOVC_FRAMES_ONLY") != "" { // development aid
		sel, lemmas = nil, nil
	}
	frames := frameChecksFor(*prop)
	for _, f := range frames {
		for _, p := range f.Packages {
			pkgSet[p] = true
		}
	}
	if len(sel) == 0 && len(lemmas) == 0 && len(frames) == 0 {
		fmt.Printf("govc: no contract, lemma or frame check serves property %s\n", *prop)
		return 2
	}
	addContractPkgs(pkgSet, cc.cs)
	var pats []string
	for p := range pkgSet {
		pats = append(pats, p)
	}
	sort.Strings(pats)
	prog, err := LoadProgram(*repo, pats)
	if err != nil {
		// the tree does not build: fail closed
		return reportBuildFailure(cc, err, start)
	}
	cc.prog = prog
	// the contracts the selected functions are verified against are themselves verified in this check
	nTagged := len(sel)
	closure := map[string]bool{}
	if os.Getenv("GOVC_NO_CLOSURE") == "" {
		for _, k := range calleeClosure(prog, cc.cs, sel) {
			closure[k] = true
			sel = append(sel, k)
		}
	}
	loadS := time.Since(start).Seconds()

	// generate obligations (functions in parallel)
	reports := make([]*FuncReport, len(sel))
	var wg sync.WaitGroup
	sem := make(chan struct{}, 8)
	for i, k := range sel {
		wg.Add(1)
		go func(i int, k string) {
			defer wg.Done()
			sem <- struct{}{}
			defer func() { <-sem }()
			reports[i] = VerifyFunction(prog, cc.cs, k, cc.cs.ByKey[k], 6000)
		}(i, k)
	}
	wg.Wait()
	var all []*Obligation
	lemmaUses := map[string]bool{}
	for _, r := range reports {
		// a clause tagged with its own property list is an obligation of those properties only
		var keep []*Obligation
		for _, o := range r.Obls {
			if len(o.Props) == 0 || hasString(o.Props, *prop) {
				keep = append(keep, o)
			}
		}
		r.Obls = keep
		all = append(all, r.Obls...)
	}
	for _, lm := range lemmas {
		os2, used, err := VerifyLemma(prog, cc.cs, lm)
		if err != nil {
			o := &Obligation{Name: "lemma:" + lm.Name, Kind: "lemma", Props: lm.Props, Clause: lm.Text, Result: &SolverResult{Status: "error", Output: err.Error()}}
			cc.lemmas = append(cc.lemmas, o)
			continue
		}
		for _, k := range used {
			lemmaUses[k] = true
		}
		cc.lemmas = append(cc.lemmas, os2...)
		all = append(all, os2...)
	}
	genS := time.Since(start).Seconds() - loadS
	// a lemma may only rely on contracts that this same check proves against their bodies
	for k := range lemmaUses {
		if strings.HasPrefix(k, "lemma:") {
			continue
		}
		found := false
		for _, s := range sel {
			if s == k {
				found = true
			}
		}
		if !found {
			fatalf("a lemma of %s calls %s, whose contract is not tagged with this property", *prop, k)
		}
	}
	// obligations recorded as known findings are expected to stay undischarged: a short time-out is enough to see
	// whether they now discharge (a repaired defect) - they must not dominate the running time of every check
	for _, o := range all {
		for _, k := range known.Findings {
			if k.Property == *prop && strings.HasPrefix(o.Name, k.Obligation) {
				o.Quick = true
			}
		}
	}
	SolveAll(all, cc.timeout, *tier == "thorough", workers)
	solveS := time.Since(start).Seconds() - loadS - genS
	if *dumpDir != "" {
		os.MkdirAll(*dumpDir, 0o755)
		for i, o := range all {
			os.WriteFile(filepath.Join(*dumpDir, fmt.Sprintf("%s_%03d.smt2", sanitize(o.Name), i)), []byte("(set-logic ALL)\n"+o.Decls+addUnfoldings(o.Decls, o.Query)+"(check-sat)\n"), 0o644)
		}
	}
	for _, f := range frames {
		cc.frameRes = append(cc.frameRes, f.Run(prog, cc.cs)...)
	}
	cc.reports = reports
	if os.Getenv("GOVC_SLOW") != "" {
		for _, o := range all {
			if o.Result != nil && o.Result.Time > 2 {
				fmt.Printf("slow %.1fs %s %s %s\n", o.Result.Time, o.Result.Status, o.Result.Backend, o.Name)
			}
		}
	}

	// ------------------------------------------------------------ verdict
	type failure struct {
		name   string
		obl    *Obligation
		reason string
		fn     string
	}
	var failures []failure
	nObl, nDis := 0, 0
	byBackend := map[string]int{}
	solverTime := 0.0
	var samples []map[string]interface{}
	funcsUnder := []map[string]interface{}{}
	assumed := map[string]bool{}
	inlined := map[string]bool{}
	havocs := map[string]bool{}
	trustedFns := []string{}
	paths := 0
	covers := 0
	for _, r := range reports {
		fu := map[string]interface{}{"function": shortFn(r.Key), "ssa_hash": r.SSAHash}
		if closure[r.Key] {
			fu["role"] = "callee of a function serving the property: its contract is relied on, so it is verified here too"
		}
		if r.Unsupported != "" {
			nObl++
			failures = append(failures, failure{name: shortFn(r.Key) + "#generate", reason: "obligations could not be generated: " + r.Unsupported, fn: r.Key})
			fu["status"] = "outside subset: " + r.Unsupported
			funcsUnder = append(funcsUnder, fu)
			continue
		}
		if r.Trusted {
			fu["status"] = "ASSUMED (contract not checked against the body): " + r.TrustNote
			trustedFns = append(trustedFns, shortFn(r.Key)+": "+r.TrustNote)
			funcsUnder = append(funcsUnder, fu)
			continue
		}
		paths += r.Paths
		for _, a := range r.Assumed {
			assumed[a] = true
		}
		for _, a := range r.Models {
			assumed["model: "+a] = true
		}
		for _, a := range r.Inlined {
			inlined[a] = true
		}
		for _, h := range r.Havocs {
			havocs[h] = true
		}
		groups := groupObls(r.Obls)
		okAll := true
		for _, g := range groups {
			if g.Kind == "cover" {
				covers++
			}
			nObl++
			for _, o := range g.Obls {
				if o.Result != nil {
					byBackend[o.Result.Backend]++
					solverTime += o.Result.Time
				}
			}
			if g.OK {
				nDis++
				if len(samples) < 6 && g.Kind != "cover" {
					o := g.Obls[0]
					samples = append(samples, map[string]interface{}{"obligation": g.Name, "clause": o.Clause, "queries": len(g.Obls), "smt_bytes": len(o.Decls) + len(o.Query), "result": "unsat", "backend": o.Result.Backend, "time_s": round3(o.Result.Time)})
				}
			} else {
				okAll = false
				for _, o := range g.Obls {
					if !o.OK() {
						failures = append(failures, failure{name: g.Name, obl: o, reason: "solver answered " + o.Result.Status, fn: r.Key})
						break
					}
				}
			}
		}
		if ct := cc.cs.ByKey[r.Key]; ct != nil && len(ct.Requires) > 0 {
			// preconditions are assumptions about the caller / the reachable states: listed so that none stays hidden
			var reqs []string
			for _, cl := range ct.Requires {
				reqs = append(reqs, cl.Text)
			}
			fu["requires"] = reqs
		}
		fu["obligations"] = len(groups)
		fu["queries"] = len(r.Obls)
		fu["paths"] = r.Paths
		if okAll {
			fu["status"] = "all discharged"
		} else {
			fu["status"] = "NOT discharged"
		}
		funcsUnder = append(funcsUnder, fu)
	}
	for _, o := range cc.lemmas {
		nObl++
		if o.Result != nil {
			byBackend[o.Result.Backend]++
			solverTime += o.Result.Time
		}
		if o.OK() {
			nDis++
			if len(samples) < 8 {
				samples = append(samples, map[string]interface{}{"obligation": o.Name, "clause": o.Clause, "result": "unsat", "backend": o.Result.Backend, "time_s": round3(o.Result.Time)})
			}
		} else {
			failures = append(failures, failure{name: o.Name, obl: o, reason: "solver answered " + o.Result.Status + " " + firstLine(o.Result.Output)})
		}
	}
	for _, fr := range cc.frameRes {
		nObl++
		if fr.OK {
			nDis++
			byBackend["frame-analysis(ssa)"]++
			if len(samples) < 10 {
				samples = append(samples, map[string]interface{}{"obligation": fr.Name, "clause": fr.What, "result": "holds", "backend": "frame-analysis(ssa)", "detail": fr.Detail})
			}
		} else {
			failures = append(failures, failure{name: fr.Name, reason: fr.Detail})
		}
	}

	// known findings
	knownFor := map[string]KnownFinding{}
	for _, k := range known.Findings {
		if k.Property == *prop {
			knownFor[k.Obligation] = k
		}
	}
	violations := 0
	knownSeen := map[string]bool{}
	replayDir := filepath.Join(*verif, "replays", *prop)
	os.RemoveAll(replayDir)
	var reconfirmed []string
	for _, f := range failures {
		if k, ok := knownFor[f.name]; ok {
			if !knownSeen[f.name] {
				knownSeen[f.name] = true
				fmt.Printf("KNOWN-FINDING: property=%s %s %s\n", *prop, f.name, k.What)
				reconfirmed = append(reconfirmed, f.name)
			}
			nDis++ // recorded, does not count as undischarged (listed separately in evidence)
			continue
		}
		violations++
		os.MkdirAll(replayDir, 0o755)
		rp := filepath.Join(replayDir, sanitize(f.name)+".json")
		rec := map[string]interface{}{"property": *prop, "obligation": f.name, "reason": f.reason, "function": f.fn}
		suffix := " no-failing-input-found"
		if f.obl != nil {
			rec["clause"] = f.obl.Clause
			rec["where"] = f.obl.Where
			rec["solver_status"] = f.obl.Result.Status
			rec["solver_output"] = trunc(f.obl.Result.Output, 4000)
			rec["solver_all"] = f.obl.Result.All
			if res := tryReplay(cc, f.fn, f.obl); res != nil {
				rec["replay"] = res
				if res.Confirmed {
					suffix = ""
				}
			}
		}
		writeJSON(rp, rec)
		fmt.Printf("VIOLATION property=%s replay=%s%s\n", *prop, rp, suffix)
		fmt.Printf("  obligation %s: %s\n", f.name, f.reason)
		if f.obl != nil {
			fmt.Printf("  clause: %s (%s)\n", f.obl.Clause, f.obl.Where)
		}
	}
	// a known finding that no longer fails is simply not reported (it may have been fixed)

	// ------------------------------------------------------------ evidence
	tb := []string{
		"induction over block/transaction histories and baseapp's per-transaction atomicity (paper argument, DESIGN.md 3.4)",
		"go/packages + go/ssa (x/tools v0.29.0) faithfully represent the compiled source",
		"z3 5.1.0 / z3 4.8.12 / cvc5 1.0.3 soundness",
		"integers are mathematical with explicit two's-complement wrap after every machine operation",
	}
	if n := len(cc.cs.Harmless); n > 0 {
		tb = append(tb, fmt.Sprintf("the %d external presentation functions and packages listed in /verif/trusted/30_harmless.spec (events, logging, metrics, formatting) neither panic nor touch state; they have no contract and their results are unknown to the proofs", n))
	}
	nFixed := len(tb)
	for a := range assumed {
		tb = append(tb, "assumed contract: "+shortFn(a))
	}
	for _, t := range trustedFns {
		tb = append(tb, "assumed (unchecked) contract on repository function: "+t)
	}
	sort.Strings(tb[nFixed:])
	var assumptions []string
	assumptions = append(assumptions, propertyAssumptions(*prop)...)
	for h := range havocs {
		assumptions = append(assumptions, "havoc (sound over-approximation): "+h)
	}
	for _, r := range reports {
		if ct := cc.cs.ByKey[r.Key]; ct != nil && isEntryPoint(r.Key) {
			for _, cl := range ct.Requires {
				assumptions = append(assumptions, "precondition of entry point "+shortFn(r.Key)+" (module invariant or state assumption, not checked at run time): "+cl.Text)
			}
		}
	}
	sort.Strings(assumptions)
	cov := map[string]interface{}{
		"obligations":                    nObl,
		"discharged":                     nDis,
		"checker_cmd":                    fmt.Sprintf("/verif/bin/govc check -prop %s -tier %s", *prop, *tier),
		"trusted_base":                   tb,
		"functions_under_contract":       funcsUnder,
		"by_backend":                     byBackend,
		"solver_time_s":                  round3(solverTime),
		"paths":                          paths,
		"covers_checked":                 covers,
		"inlined_external_leaves":        keys(inlined),
		"known_findings_reconfirmed":     reconfirmed,
		"samples":                        samples,
		"query_timeout_s":                cc.timeout.Seconds(),
		"solver_groups_in_parallel":      workers,
		"phases_s":                       map[string]float64{"load": round3(loadS), "generate": round3(genS), "solve": round3(solveS)},
		"contract_files":                 relFiles(cc.cs.Files),
		"functions_tagged_with_property": nTagged,
		"functions_added_as_callees":     len(closure),
		"callee_rule":                    "every contracted repository function reachable from a tagged function through calls (also through inlined or uncontracted helpers and the keeper interfaces) is verified against its body in this same check, so the check does not lean on another property's check for a callee's contract",
	}
	if len(samples) == 0 {
		cov["samples"] = []interface{}{"(no obligation discharged)"}
	}
	if f := os.Getenv("GOVC_VALIDATION"); f != "" {
		// bounded differential validation of the assumed contracts against the real libraries (never counted as proved)
		if data, err := os.ReadFile(f); err == nil {
			var lines []string
			for _, ln := range strings.Split(strings.TrimSpace(string(data)), "\n") {
				if ln = strings.TrimSpace(ln); ln != "" {
					lines = append(lines, ln)
				}
			}
			okV := strings.Contains(string(data), "exit=0")
			cov["assumed_contracts_bounded_validation"] = map[string]interface{}{
				"label":                      "BOUNDED: 20000 random cases per group (2000 for addresses/coins), seeded by VERIF_SEED; not a proof",
				"agrees_with_real_libraries": okV, "output": lines, "harness": "/verif/validate/zz_assumed_contracts_test.go"}
			if !okV {
				fmt.Println("WARNING: an assumed contract disagrees with the real library on a sampled input (see evidence); this is a defect of the trusted base, not a violation of the property")
			}
		}
	}
	if f := os.Getenv("GOVC_SELFTEST"); f != "" {
		// must-fail self-test (thorough tier): seeded changes of this property, run on a scratch worktree
		if data, err := os.ReadFile(f); err == nil {
			var st []map[string]interface{}
			if json.Unmarshal(data, &st) == nil {
				det := 0
				for _, e := range st {
					if d, _ := e["detected"].(bool); d {
						det++
					}
				}
				cov["selftest"] = map[string]interface{}{"seeded_changes": len(st), "detected": det, "results": st,
					"note": "each seeded change of /verif/seeded is applied to a scratch worktree of /repo's HEAD and this property's quick check is run on it; an undetected change is a weakness of the check, not a violation"}
			}
		}
	}
	ev := map[string]interface{}{
		"property_id": *prop, "tier": *tier, "seed": seed, "level": "proof",
		"coverage": cov, "assumptions": assumptions, "wall_s": round3(time.Since(start).Seconds()), "violations": violations,
	}
	writeJSON(filepath.Join(*verif, "evidence", *prop+".json"), ev)
	fmt.Printf("govc: property %s: %d obligations, %d discharged, %d violations, %.1fs (load %.1f, gen %.1f, solve %.1f)\n", *prop, nObl, nDis, violations, time.Since(start).Seconds(), loadS, genS, solveS)
	if violations > 0 {
		return 1
	}
	return 0
}

func relFiles(fs []string) []string {
	var out []string
	for _, f := range fs {
		out = append(out, f)
	}
	return out
}

func round3(f float64) float64 {
	return float64(int64(f*1000+0.5)) / 1000
}

func reportBuildFailure(cc *checkCtx, err error, start time.Time) int {
	rp := filepath.Join(cc.verif, "replays", cc.prop, "build.json")
	writeJSON(rp, map[string]interface{}{"property": cc.prop, "obligation": "load#build", "reason": err.Error()})
	fmt.Printf("VIOLATION property=%s replay=%s no-failing-input-found\n  the repository does not load: %v\n", cc.prop, rp, err)
	ev := map[string]interface{}{
		"property_id": cc.prop, "tier": cc.tier, "seed": cc.seed, "level": "proof",
		"coverage": map[string]interface{}{"obligations": 1, "discharged": 0, "checker_cmd": "govc check", "trusted_base": []string{}, "samples": []string{"load failure"}},
		"wall_s":   round3(time.Since(start).Seconds()), "violations": 1,
	}
	writeJSON(filepath.Join(cc.verif, "evidence", cc.prop+".json"), ev)
	return 1
}

func propertyAssumptions(prop string) []string {
	return []string{
		"every contract listed under trusted_base as 'assumed contract' describes code outside /repo and is not proved",
		"math.Int / LegacyDec values are immutable (the *Mut methods are applied to unaliased locals only)",
	}
}

var _ = strings.Join

func hasString(xs []string, x string) bool {
	for _, y := range xs {
		if y == x {
			return true
		}
	}
	return false
}

// isEntryPoint: message servers, ante decorators, block hooks, genesis and gRPC handlers - functions called by the SDK,
// whose preconditions nobody in /repo discharges.
func isEntryPoint(key string) bool {
	for _, m := range []string{"msgServer).", ").AnteHandle", ".BeginBlocker", ".InitGenesis", ".ExportGenesis", "Migrator).", "v3.Migrate"} {
		if strings.Contains(key, m) {
			return true
		}
	}
	return false
}

// loadAverage: the one-minute load average (0 when it cannot be read).
func loadAverage() float64 {
	data, err := os.ReadFile("/proc/loadavg")
	if err != nil {
		return 0
	}
	f := strings.Fields(string(data))
	if len(f) == 0 {
		return 0
	}
	v, _ := strconv.ParseFloat(f[0], 64)
	return v
}
