package main

import (
	"bytes"
	"context"
	"fmt"
	"os"
	"os/exec"
	"path/filepath"
	"regexp"
	"strings"
	"sync"
	"time"
)

type SolverResult struct {
	Status  string // unsat | sat | unknown | timeout | error
	Backend string
	Time    float64
	Output  string
	Values  map[string]string
	All     map[string]string // backend -> status (thorough mode)
}

type solverSpec struct {
	name string
	args []string
}

var solvers = []solverSpec{
	{"z3-5.1.0", []string{"z3-new", "-smt2"}},
	{"z3-4.8.12", []string{"z3", "-smt2"}},
	{"cvc5-1.0.3", []string{"cvc5", "--lang=smt2", "--produce-models"}},
}

var scratchDir string

func initScratch() {
	d, err := os.MkdirTemp("", "govc-")
	if err != nil {
		fatalf("mktemp: %v", err)
	}
	scratchDir = d
}

func cleanupScratch() {
	if scratchDir != "" {
		os.RemoveAll(scratchDir)
	}
}

var queryCounter int
var queryMu sync.Mutex

// Solve races the installed solvers on the query. getValues lists constants
// whose model values are requested on sat.
func Solve(query string, getValues []string, timeout time.Duration, needAll bool) SolverResult {
	queryMu.Lock()
	queryCounter++
	id := queryCounter
	queryMu.Unlock()
	var full strings.Builder
	full.WriteString("(set-option :produce-models true)\n(set-logic ALL)\n")
	full.WriteString(query)
	full.WriteString("\n(check-sat)\n")
	if len(getValues) > 0 {
		full.WriteString("(get-value (" + strings.Join(getValues, " ") + "))\n")
	}
	path := filepath.Join(scratchDir, fmt.Sprintf("q%d.smt2", id))
	if err := os.WriteFile(path, []byte(full.String()), 0o644); err != nil {
		return SolverResult{Status: "error", Output: err.Error()}
	}
	defer os.Remove(path)

	ctx, cancel := context.WithTimeout(context.Background(), timeout)
	defer cancel()
	type res struct {
		SolverResult
	}
	ch := make(chan res, len(solvers))
	for _, s := range solvers {
		s := s
		go func() {
			start := time.Now()
			args := append([]string{}, s.args[1:]...)
			// the solver also limits itself, so that a solver process never outlives a check that is killed
			hard := int(timeout.Seconds()) + 10
			if strings.HasPrefix(s.args[0], "z3") {
				args = append(args, fmt.Sprintf("-T:%d", hard))
			} else {
				args = append(args, fmt.Sprintf("--tlimit=%d", hard*1000))
			}
			args = append(args, path)
			cmd := exec.CommandContext(ctx, s.args[0], args...)
			var out bytes.Buffer
			cmd.Stdout = &out
			cmd.Stderr = &out
			err := cmd.Run()
			el := time.Since(start).Seconds()
			o := out.String()
			first := ""
			for _, ln := range strings.Split(o, "\n") {
				ln = strings.TrimSpace(ln)
				if ln == "" || strings.HasPrefix(ln, "WARNING") || strings.HasPrefix(ln, "(warning") {
					continue
				}
				first = ln
				break
			}
			st := "error"
			switch first {
			case "unsat", "sat", "unknown":
				st = first
			default:
				if ctx.Err() != nil {
					st = "timeout"
				} else if err != nil && strings.Contains(o, "unsat") {
					st = "error"
				}
			}
			ch <- res{SolverResult{Status: st, Backend: s.name, Time: el, Output: o}}
		}()
	}
	all := map[string]string{}
	var best *SolverResult
	var fallback *SolverResult
	for i := 0; i < len(solvers); i++ {
		r := <-ch
		all[r.Backend] = r.Status
		rr := r.SolverResult
		if r.Status == "unsat" || r.Status == "sat" {
			if best == nil {
				best = &rr
				if !needAll {
					cancel()
				} else {
					// thorough tier: the other solvers get a bounded grace period to confirm, not the full time-out
					go func() {
						select {
						case <-time.After(15 * time.Second):
							cancel()
						case <-ctx.Done():
						}
					}()
				}
			}
		} else if fallback == nil || (fallback.Status == "error" && r.Status != "error") {
			fallback = &rr
		}
	}
	if best == nil {
		best = fallback
	}
	best.All = all
	// two solvers that contradict each other decide nothing
	sawSat, sawUnsat := false, false
	for _, st := range all {
		if st == "sat" {
			sawSat = true
		}
		if st == "unsat" {
			sawUnsat = true
		}
	}
	if sawSat && sawUnsat {
		best.Status = "error"
		best.Output = "solver disagreement: " + fmt.Sprint(all) + "\n" + best.Output
	}
	if best.Status == "sat" && len(getValues) > 0 {
		best.Values = parseValues(best.Output)
	}
	return *best
}

func parseValues(out string) map[string]string {
	vals := map[string]string{}
	idx := strings.Index(out, "((")
	if idx < 0 {
		return vals
	}
	xs, err := parseSXAll(out[idx:])
	if err != nil || len(xs) == 0 {
		return vals
	}
	for _, pair := range xs[0].List {
		if pair.IsL && len(pair.List) == 2 {
			vals[pair.List[0].String()] = pair.List[1].String()
		}
	}
	return vals
}

// quickCheck runs z3 5.1.0 only, for path pruning.
func quickCheck(query string, timeout time.Duration) string {
	queryMu.Lock()
	queryCounter++
	id := queryCounter
	queryMu.Unlock()
	path := filepath.Join(scratchDir, fmt.Sprintf("f%d.smt2", id))
	if err := os.WriteFile(path, []byte("(set-logic ALL)\n"+query+"\n(check-sat)\n"), 0o644); err != nil {
		return "error"
	}
	defer os.Remove(path)
	ctx, cancel := context.WithTimeout(context.Background(), timeout)
	defer cancel()
	out, _ := exec.CommandContext(ctx, "z3-new", "-smt2", path).CombinedOutput()
	return strings.TrimSpace(strings.SplitN(strings.TrimSpace(string(out)), "\n", 2)[0])
}

// stripQuantified removes quantified assertions from a query (used only to
// search for candidate counterexamples, which are then replayed on the real code).
func stripQuantified(q string) string {
	xs, err := parseSXAll(q)
	if err != nil {
		return q
	}
	var b strings.Builder
	for _, x := range xs {
		if x.IsL && len(x.List) == 2 && x.List[0].Atom == "assert" && containsQuant(x.List[1]) {
			// a top-level universal over one Int variable is replaced by its instances at 0..7
			// (candidate search only; candidates are validated by replay)
			q := x.List[1]
			if q.IsL && len(q.List) == 3 && q.List[0].Atom == "forall" && len(q.List[1].List) == 1 &&
				q.List[1].List[0].IsL && len(q.List[1].List[0].List) == 2 && q.List[1].List[0].List[1].Atom == "Int" {
				v := q.List[1].List[0].List[0].Atom
				body := q.List[2]
				if body.IsL && len(body.List) >= 2 && body.List[0].Atom == "!" {
					body = body.List[1]
				}
				if !containsQuant(body) {
					for k := 0; k < 8; k++ {
						b.WriteString("(assert " + substSX(body, v, fmt.Sprint(k)).String() + ")\n")
					}
				}
			}
			continue
		}
		b.WriteString(x.String())
		b.WriteString("\n")
	}
	return b.String()
}

func substSX(x *SX, v, by string) *SX {
	if !x.IsL {
		if x.Atom == v {
			return &SX{Atom: by}
		}
		return x
	}
	n := &SX{IsL: true}
	for _, c := range x.List {
		n.List = append(n.List, substSX(c, v, by))
	}
	return n
}

func containsQuant(x *SX) bool {
	if !x.IsL {
		return false
	}
	if len(x.List) > 0 && !x.List[0].IsL && (x.List[0].Atom == "forall" || x.List[0].Atom == "exists") {
		return true
	}
	for _, c := range x.List {
		if containsQuant(c) {
			return true
		}
	}
	return false
}

// Unfolding of recursive specification functions.  A recursive spec function F is declared uninterpreted, with its
// one-step definition given as a non-recursive define-fun named F.def (whose body may call F).  For every ground
// application F(args) that occurs in a query, the instance F(args) = F.def(args) is added: one unfolding at each use
// site.  This is sound (instances of the definition) and avoids the matching loops of a quantified definition.
var unfoldRe = regexp.MustCompile(`\(define-fun ([A-Za-z0-9_.]+)\.def `)

func addUnfoldings(decls, query string) string {
	ms := unfoldRe.FindAllStringSubmatch(decls, -1)
	if len(ms) == 0 {
		return query
	}
	fns := map[string]bool{}
	for _, m := range ms {
		fns[m[1]] = true
	}
	xs, err := parseSXAll(query)
	if err != nil {
		return query
	}
	seen := map[string]bool{}
	var out []string
	var walk func(x *SX, bound map[string]bool)
	mentions := func(x *SX, bound map[string]bool) bool {
		var m func(x *SX) bool
		m = func(x *SX) bool {
			if !x.IsL {
				return bound[x.Atom]
			}
			for _, c := range x.List {
				if m(c) {
					return true
				}
			}
			return false
		}
		return m(x)
	}
	walk = func(x *SX, bound map[string]bool) {
		if !x.IsL || len(x.List) == 0 {
			return
		}
		head := x.List[0]
		if !head.IsL && (head.Atom == "forall" || head.Atom == "exists") && len(x.List) >= 3 {
			nb := map[string]bool{}
			for k := range bound {
				nb[k] = true
			}
			for _, b := range x.List[1].List {
				if b.IsL && len(b.List) > 0 {
					nb[b.List[0].Atom] = true
				}
			}
			walk(x.List[2], nb)
			return
		}
		if !head.IsL && head.Atom == "let" && len(x.List) >= 3 {
			nb := map[string]bool{}
			for k := range bound {
				nb[k] = true
			}
			for _, b := range x.List[1].List {
				if b.IsL && len(b.List) == 2 {
					walk(b.List[1], bound)
					nb[b.List[0].Atom] = true
				}
			}
			walk(x.List[2], nb)
			return
		}
		if !head.IsL && fns[head.Atom] && !mentions(x, bound) {
			key := x.String()
			if !seen[key] {
				seen[key] = true
				args := make([]string, 0, len(x.List)-1)
				for _, a := range x.List[1:] {
					args = append(args, a.String())
				}
				out = append(out, fmt.Sprintf("(assert (= %s (%s.def %s)))", key, head.Atom, strings.Join(args, " ")))
			}
		}
		for _, c := range x.List {
			walk(c, bound)
		}
	}
	for _, x := range xs {
		walk(x, map[string]bool{})
	}
	if len(out) == 0 {
		return query
	}
	return query + strings.Join(out, "\n") + "\n"
}
