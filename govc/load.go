package main

import (
	"fmt"
	"go/constant"
	"go/token"
	"go/types"
	"os"
	"path/filepath"
	"strings"
	"sync"

	"golang.org/x/tools/go/packages"
	"golang.org/x/tools/go/ssa"
	"golang.org/x/tools/go/ssa/ssautil"
)

const repoModule = "github.com/unification-com/mainchain"

type Program struct {
	fset    *token.FileSet
	prog    *ssa.Program
	pkgs    []*packages.Package
	ssaPkgs []*ssa.Package
	byPath  map[string]*ssa.Package
	repo    string
	funcs   map[string]*ssa.Function
}

func fatalf(format string, a ...interface{}) {
	fmt.Fprintf(os.Stderr, "govc: "+format+"\n", a...)
	cleanupScratch()
	os.Exit(2)
}

// LoadProgram loads the given package patterns from the repository's current
// working tree with the verif build tag and builds SSA for everything
// (dependencies included, so that external leaf functions can be executed).
func LoadProgram(repo string, patterns []string) (*Program, error) {
	// scratch copy of go.mod/go.sum so that -mod=mod never rewrites /repo/go.mod
	modDir := filepath.Join(scratchDir, "gomod")
	os.MkdirAll(modDir, 0o755)
	for _, f := range []string{"go.mod", "go.sum"} {
		data, err := os.ReadFile(filepath.Join(repo, f))
		if err != nil {
			return nil, err
		}
		if err := os.WriteFile(filepath.Join(modDir, f), data, 0o644); err != nil {
			return nil, err
		}
	}
	cfg := &packages.Config{
		Mode: packages.NeedName | packages.NeedFiles | packages.NeedCompiledGoFiles | packages.NeedImports | packages.NeedDeps |
			packages.NeedTypes | packages.NeedTypesSizes | packages.NeedSyntax | packages.NeedTypesInfo | packages.NeedModule,
		Dir:        repo,
		BuildFlags: []string{"-tags=verif", "-mod=mod", "-modfile=" + filepath.Join(modDir, "go.mod")},
		Env:        append(os.Environ(), "GOFLAGS=", "GOPROXY=off", "GOSUMDB=off", "GOTOOLCHAIN=local", "GOWORK=off"),
	}
	pkgs, err := packages.Load(cfg, patterns...)
	if err != nil {
		return nil, err
	}
	var errs []string
	packages.Visit(pkgs, nil, func(p *packages.Package) {
		if strings.HasPrefix(p.PkgPath, repoModule) {
			for _, e := range p.Errors {
				errs = append(errs, e.Error())
			}
		}
	})
	if len(errs) > 0 {
		return nil, fmt.Errorf("package errors: %s", strings.Join(errs, "; "))
	}
	prog, spkgs := ssautil.AllPackages(pkgs, ssa.InstantiateGenerics)
	// debug references (source names of locals, used by loop invariants) for repository packages only
	for _, sp := range prog.AllPackages() {
		if strings.HasPrefix(sp.Pkg.Path(), repoModule) {
			sp.SetDebugMode(true)
		}
	}
	prog.Build()
	p := &Program{fset: prog.Fset, prog: prog, pkgs: pkgs, ssaPkgs: spkgs, byPath: map[string]*ssa.Package{}, repo: repo, funcs: map[string]*ssa.Function{}}
	for _, sp := range prog.AllPackages() {
		p.byPath[sp.Pkg.Path()] = sp
	}
	return p, nil
}

func (p *Program) isRepoPkg(path string) bool {
	return strings.HasPrefix(path, repoModule)
}

// FindFunc resolves a contract key ("pkg.Func", "(pkg.T).M", "(*pkg.T).M").
var findMu sync.Mutex

func (p *Program) FindFunc(key string) *ssa.Function {
	findMu.Lock()
	defer findMu.Unlock()
	if f, ok := p.funcs[key]; ok {
		return f
	}
	var res *ssa.Function
	if i := strings.Index(key, "$"); i >= 0 {
		// function literal: Parent$k (possibly nested), found among the anonymous functions of its parent
		findMu.Unlock()
		parent := p.FindFunc(key[:i])
		findMu.Lock()
		var walk func(f *ssa.Function)
		walk = func(f *ssa.Function) {
			for _, af := range f.AnonFuncs {
				if af.String() == key {
					res = af
				}
				walk(af)
			}
		}
		if parent != nil {
			walk(parent)
		}
		p.funcs[key] = res
		return res
	}
	if strings.HasPrefix(key, "(") {
		end := strings.Index(key, ")")
		recv := key[1:end]
		meth := key[end+2:]
		ptr := strings.HasPrefix(recv, "*")
		recv = strings.TrimPrefix(recv, "*")
		dot := strings.LastIndex(recv, ".")
		pkgPath, tname := recv[:dot], recv[dot+1:]
		sp := p.byPath[pkgPath]
		if sp == nil {
			return nil
		}
		tm, ok := sp.Members[tname].(*ssa.Type)
		if !ok {
			return nil
		}
		var t types.Type = tm.Type()
		if ptr {
			t = types.NewPointer(t)
		}
		ms := p.prog.MethodSets.MethodSet(t)
		for i := 0; i < ms.Len(); i++ {
			if ms.At(i).Obj().Name() == meth {
				res = p.prog.MethodValue(ms.At(i))
				break
			}
		}
		// a contract written for the value receiver form but declared on pointer (or vice versa)
		if res != nil && res.String() != key {
			// method promoted through wrapper: accept only exact declared methods
			if res.Synthetic != "" {
				// find the declared method
				if fn := p.prog.FuncValue(ms.Lookup(sp.Pkg, meth).Obj().(*types.Func)); fn != nil {
					res = fn
				}
			}
		}
	} else {
		dot := strings.LastIndex(key, ".")
		if dot < 0 {
			return nil
		}
		sp := p.byPath[key[:dot]]
		if sp == nil {
			return nil
		}
		res, _ = sp.Members[key[dot+1:]].(*ssa.Function)
	}
	p.funcs[key] = res
	return res
}

// globalFuncInit finds the function stored into a package-level func variable by the package initialiser.
func (p *Program) globalFuncInit(g *ssa.Global) *ssa.Function {
	initFn := g.Pkg.Func("init")
	if initFn == nil {
		return nil
	}
	var found *ssa.Function
	n := 0
	for _, b := range initFn.Blocks {
		for _, in := range b.Instrs {
			if s, ok := in.(*ssa.Store); ok && s.Addr == g {
				n++
				switch v := s.Val.(type) {
				case *ssa.Function:
					found = v
				case *ssa.ChangeType:
					if f, ok := v.X.(*ssa.Function); ok {
						found = f
					}
				case *ssa.MakeClosure:
					if f, ok := v.Fn.(*ssa.Function); ok && len(v.Bindings) == 0 {
						found = f
					}
				}
			}
		}
	}
	if n == 1 {
		return found
	}
	return nil
}

// storesToGlobal lists the functions (other than package initialisers) that store to g.
func (p *Program) globalInitStore(g *ssa.Global) *ssa.Store {
	initFn := g.Pkg.Func("init")
	if initFn == nil {
		return nil
	}
	var st *ssa.Store
	n := 0
	for _, b := range initFn.Blocks {
		for _, in := range b.Instrs {
			if s, ok := in.(*ssa.Store); ok && s.Addr == g {
				st = s
				n++
			}
		}
	}
	if n == 1 {
		return st
	}
	return nil
}

// globalFacts derives facts about a package-level variable from its
// initialiser: constants, byte-slice literals, registered errors.
func (p *Program) globalFacts(g *ssa.Global, c string, u *Univ) []string {
	s := p.globalInitStore(g)
	if s == nil {
		return nil
	}
	switch v := s.Val.(type) {
	case *ssa.Const:
		if v.Value == nil {
			return nil
		}
		switch v.Value.Kind() {
		case constant.Int:
			return []string{fmt.Sprintf("(= %s %s)", c, smtInt(v.Value.ExactString()))}
		case constant.String:
			return []string{fmt.Sprintf("(= %s %s)", c, u.StrLit(constant.StringVal(v.Value)))}
		case constant.Bool:
			return []string{fmt.Sprintf("(= %s %v)", c, constant.BoolVal(v.Value))}
		}
	case *ssa.Slice:
		// slice of a freshly allocated array filled with constants
		al, ok := v.X.(*ssa.Alloc)
		if !ok || v.Low != nil || v.High != nil {
			return nil
		}
		at, ok := al.Type().Underlying().(*types.Pointer).Elem().Underlying().(*types.Array)
		if !ok {
			return nil
		}
		facts := []string{fmt.Sprintf("(= (sl.len %s) %d)", c, at.Len()), fmt.Sprintf("(not (sl.nil %s))", c)}
		elems := map[int64]string{}
		for _, b := range al.Parent().Blocks {
			for _, in := range b.Instrs {
				st, ok := in.(*ssa.Store)
				if !ok {
					continue
				}
				ia, ok := st.Addr.(*ssa.IndexAddr)
				if !ok || ia.X != al {
					continue
				}
				ic, ok1 := ia.Index.(*ssa.Const)
				vc, ok2 := st.Val.(*ssa.Const)
				if !ok1 || !ok2 || vc.Value == nil || vc.Value.Kind() != constant.Int {
					return facts[:2]
				}
				idx, _ := constant.Int64Val(ic.Value)
				elems[idx] = smtInt(vc.Value.ExactString())
			}
		}
		for i := int64(0); i < at.Len(); i++ {
			e, ok := elems[i]
			if !ok {
				e = "0"
			}
			facts = append(facts, fmt.Sprintf("(= (select (sl.arr %s) %d) %s)", c, i, e))
		}
		return facts
	case *ssa.Call:
		if callee := v.Common().StaticCallee(); callee != nil {
			switch callee.String() {
			case "cosmossdk.io/errors.Register", "cosmossdk.io/errors.RegisterWithGRPCCode", "github.com/cosmos/cosmos-sdk/types/errors.Register":
				return []string{fmt.Sprintf("(not (= %s iface.nil))", c)}
			}
		}
	case *ssa.MakeInterface:
		if call, ok := v.X.(*ssa.Call); ok {
			if callee := call.Common().StaticCallee(); callee != nil {
				switch callee.String() {
				case "cosmossdk.io/errors.Register", "cosmossdk.io/errors.RegisterWithGRPCCode", "github.com/cosmos/cosmos-sdk/types/errors.Register":
					return []string{fmt.Sprintf("(not (= %s iface.nil))", c)}
				}
			}
		}
	}
	return nil
}

// NonInitStoresToGlobals lists stores to package-level variables outside init functions, for the repo packages.
func (p *Program) NonInitStoresToGlobals() []string {
	var out []string
	for fn := range ssautil.AllFunctions(p.prog) {
		if fn.Pkg == nil || !p.isRepoPkg(fn.Pkg.Pkg.Path()) {
			continue
		}
		if fn.Name() == "init" || strings.HasPrefix(fn.Name(), "init#") {
			continue
		}
		for _, b := range fn.Blocks {
			for _, in := range b.Instrs {
				if s, ok := in.(*ssa.Store); ok {
					if g, ok := s.Addr.(*ssa.Global); ok {
						out = append(out, fmt.Sprintf("%s stores to %s", fn.String(), g.String()))
					}
				}
			}
		}
	}
	return out
}
