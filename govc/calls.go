package main

import (
	"fmt"
	"go/types"
	"math/big"
	"strings"

	"golang.org/x/tools/go/ssa"
)

type bigInt = big.Int

var bigOne = big.NewInt(1)

// ---------------------------------------------------------------- environments for contract expressions

func (ex *Exec) valTV(v Val, t types.Type, st *State) TV {
	if v.P != nil {
		pt, ok := t.Underlying().(*types.Pointer)
		if ok && v.P.Cell != nil && !v.P.Unknown {
			return TV{ex.load(v.P, st, "contract"), ex.u.SortOf(pt.Elem())}
		}
		if ok {
			// nil or unknown pointer: the pointee is an unconstrained value (clauses about it cannot be proved)
			return TV{ex.u.Fresh("nilptr.pointee", ex.u.SortOf(pt.Elem())), ex.u.SortOf(pt.Elem())}
		}
		return TV{ex.pure(v, t, st), "Ref"}
	}
	return TV{ex.pure(v, t, st), ex.u.SortOf(t)}
}

// envFor builds the environment of the function under verification at state st.
func (ex *Exec) envFor(fr *Frame, st *State) *Env {
	env := &Env{u: ex.u, vars: map[string]TV{}, bound: map[string]string{}, lets: map[string]*Expr{}}
	for g, t := range st.ghost {
		env.vars[g] = TV{t, ex.ghostSort(g)}
	}
	if fr != nil && fr.top {
		names := ex.paramNames(fr.fn, fr.ct)
		for i, p := range fr.fn.Params {
			if v, ok := fr.regs[p]; ok && names[i] != "_" && names[i] != "" {
				env.vars[names[i]] = ex.valTV(v, p.Type(), st)
				if v.P != nil {
					env.vars[names[i]+"$isnil"] = TV{v.P.NilT, "Bool"}
					env.vars[names[i]+"$ref"] = TV{ex.pure(v, p.Type(), st), "Ref"}
				}
			}
		}
		// captured variables of a function literal: the name denotes the current content of the captured variable
		for _, fv := range fr.fn.FreeVars {
			if r, ok := fr.regs[fv]; ok && r.P != nil && r.P.Cell != nil && len(r.P.Path) == 0 {
				if _, shadow := env.vars[fv.Name()]; shadow {
					continue
				}
				if _, isPtr := r.P.Cell.typ.Underlying().(*types.Pointer); isPtr {
					// a captured pointer variable: the name denotes the object it points to
					if inner, ok := ex.loadOpaque(r.P); ok && inner.P != nil && inner.P.Cell != nil && len(inner.P.Path) == 0 {
						if c, live := st.cells[inner.P.Cell]; live {
							env.vars[fv.Name()] = TV{c, ex.u.SortOf(inner.P.Cell.typ)}
							env.vars[fv.Name()+"$isnil"] = TV{inner.P.NilT, "Bool"}
						}
					}
					continue
				}
				if c, live := st.cells[r.P.Cell]; live {
					env.vars[fv.Name()] = TV{c, ex.u.SortOf(r.P.Cell.typ)}
				}
			}
		}
		// named locals that live in cells
		for val, r := range fr.regs {
			if a, ok := val.(*ssa.Alloc); ok && a.Comment != "" && r.P != nil && r.P.Cell != nil {
				if _, shadow := env.vars[a.Comment]; !shadow {
					if c, live := st.cells[r.P.Cell]; live {
						env.vars[a.Comment] = TV{c, ex.u.SortOf(r.P.Cell.typ)}
					}
				}
			}
		}
		// source-level names of locals (debug references)
		for name, sv := range fr.names {
			if _, shadow := env.vars[name]; shadow {
				continue
			}
			var v Val
			switch x := sv.(type) {
			case *ssa.Const:
				v = ex.constVal(x)
			default:
				r, ok := fr.regs[sv]
				if !ok {
					continue
				}
				v = r
			}
			if v.Fn != nil || v.Store != "" || v.Tup != nil {
				continue
			}
			if v.P != nil && (v.P.Cell == nil || v.P.Unknown) {
				continue
			}
			if v.P != nil {
				if _, live := st.cells[v.P.Cell]; !live {
					continue
				}
			}
			func() {
				defer func() { recover() }()
				env.vars[name] = ex.valTV(v, sv.Type(), st)
			}()
		}
		if fr.ct != nil {
			for _, l := range fr.ct.Lets {
				env.lets[l.Name] = l.E
			}
		}
	}
	env.old = ex.oldEnv
	env.deref = func(ref string) (TV, bool) {
		var id int
		if n, _ := fmt.Sscanf(ref, "cellref!%d", &id); n != 1 {
			return TV{}, false
		}
		for c, content := range st.cells {
			if c.id == id {
				return TV{content, ex.u.SortOf(c.typ)}, true
			}
		}
		return TV{}, false
	}
	return env
}

func (ex *Exec) paramNames(fn *ssa.Function, ct *Contract) []string {
	names := make([]string, len(fn.Params))
	for i, p := range fn.Params {
		names[i] = p.Name()
	}
	if ct != nil && ct.HasNames {
		// the contract lists the parameters without the receiver
		off := 0
		if fn.Signature.Recv() != nil {
			off = 1
		}
		if len(ct.Params) == len(fn.Params)-off {
			for i, n := range ct.Params {
				names[i+off] = n
			}
		} else if len(ct.Params) == len(fn.Params) {
			copy(names, ct.Params)
		} else {
			// the function's signature no longer matches its contract: fail closed for this function, not for the whole run
			unsupported("contract %s lists %d parameters, function has %d", ct.Key, len(ct.Params), len(fn.Params)-off)
		}
	}
	return names
}

func resultNames(sig *types.Signature, ct *Contract) []string {
	n := sig.Results().Len()
	names := make([]string, n)
	for i := 0; i < n; i++ {
		names[i] = sig.Results().At(i).Name()
		if names[i] == "" || names[i] == "_" {
			if n == 1 {
				names[i] = "result"
			} else {
				names[i] = fmt.Sprintf("result%d", i)
			}
		}
	}
	if ct != nil && len(ct.Results) == n {
		copy(names, ct.Results)
	}
	return names
}

// ---------------------------------------------------------------- globals

func (ex *Exec) loadGlobal(g *ssa.Global, st *State) Val {
	et := g.Type().Underlying().(*types.Pointer).Elem()
	if _, isSig := et.Underlying().(*types.Signature); isSig {
		if fn := ex.prog.globalFuncInit(g); fn != nil {
			return Val{Fn: &FnVal{Fn: fn}}
		}
		unsupported("call through function variable %s", g.Name())
	}
	name := "glob." + shortPkg(g.Pkg.Pkg.Path()) + "." + g.Name()
	sort := ex.u.SortOf(et)
	if _, isPtr := et.Underlying().(*types.Pointer); isPtr {
		return Val{P: &Ptr{Unknown: true, NilT: "false"}}
	}
	c := ex.u.Const(name, sort)
	if !ex.globFacts[name] {
		ex.globFacts[name] = true
		for _, f := range ex.prog.globalFacts(g, c, ex.u) {
			ex.entrySt.assume(f)
			st.assume(f)
		}
	}
	// facts are re-assumed on every path that loads the global (cheap)
	for _, f := range ex.prog.globalFacts(g, c, ex.u) {
		st.assume(f)
	}
	for _, gf := range ex.cs.Globals[g.Pkg.Pkg.Path()] {
		if gf.Var != g.Name() {
			continue
		}
		env := &Env{u: ex.u, vars: map[string]TV{gf.Var: {c, sort}}, bound: map[string]string{}, lets: map[string]*Expr{}}
		tv, err := env.Translate(gf.E, "Bool")
		if err != nil {
			unsupported("global fact for %s: %v", gf.Var, err)
		}
		st.assume(tv.T)
		ex.models["abstraction step (justified by the C18 key lemmas): global "+g.Name()+": "+gf.Text] = true
	}
	return Val{T: c}
}

// ---------------------------------------------------------------- calls

func (ex *Exec) call(fr *Frame, st *State, instr ssa.Value, com *ssa.CallCommon, in ssa.Instruction) []Outcome {
	var args []Val
	for _, a := range com.Args {
		args = append(args, ex.val(fr, st, a))
	}
	if com.IsInvoke() {
		recv := ex.val(fr, st, com.Value)
		key := "(" + com.Value.Type().String() + ")." + com.Method.Name()
		if m, ok := goInvokeModels[com.Method.Name()]; ok {
			if out, handled := m(ex, fr, st, com, recv, args, in); handled {
				ex.models[key] = true
				return out
			}
		}
		if conc, ok := ex.cs.Impls[com.Value.Type().String()]; ok {
			ckey := "(" + conc + ")." + com.Method.Name()
			if c := ex.cs.Lookup(ckey); c != nil {
				ex.models["interface "+shortFn(com.Value.Type().String())+" is implemented by "+shortFn(conc)+" (wiring checked by the app frame obligation)"] = true
				fn := ex.prog.FindFunc(ckey)
				if fn == nil {
					unsupported("implementation %s not found", ckey)
				}
				all := append([]Val{recv}, args...)
				if c.Inline {
					ex.inlined[ckey] = true
					// receiver: the concrete keeper value is opaque here; inlining needs its fields
					unsupported("inline contract on interface-dispatched %s", ckey)
				}
				var ptypes []types.Type
				for _, p := range fn.Params {
					ptypes = append(ptypes, p.Type())
				}
				// the receiver is the interface value; contracts never mention keeper fields
				all[0] = Val{T: ex.u.Fresh("keeper", ex.u.SortOf(fn.Params[0].Type()))}
				return ex.applyContract(c, ckey, fn.Signature, ex.paramNames(fn, c), ptypes, all, st, in)
			}
		}
		if c := ex.cs.Lookup(key); c != nil {
			sig := com.Method.Type().(*types.Signature)
			all := append([]Val{recv}, args...)
			ptypes := []types.Type{com.Value.Type()}
			pnames := []string{"recv"}
			for i := 0; i < sig.Params().Len(); i++ {
				ptypes = append(ptypes, sig.Params().At(i).Type())
				pnames = append(pnames, sig.Params().At(i).Name())
			}
			if c.HasNames && len(c.Params) == len(pnames) {
				pnames = c.Params
			}
			return ex.applyContract(c, key, sig, pnames, ptypes, all, st, in)
		}
		ex.havoc("call of " + key + " (no contract)")
		if ex.ct != nil && ex.ct.NoPanic && !ex.cs.IsHarmless(key) {
			ex.addObl("safe", "callee-without-contract-"+sanitizeLabel(shortFn(key)), ex.ct.Props, st, "false", ex.pos(in), "nopanic: the interface method "+shortFn(key)+" has neither an assumed contract nor an entry in the harmless list")
		}
		return ex.havocCall(com.Signature(), args, com.Args, st, "ext")
	}
	fv := ex.val(fr, st, com.Value)
	if fv.Fn == nil {
		if prm, ok := com.Value.(*ssa.Parameter); ok && prm.Name() == "next" && fr.top && fr.ct != nil {
			// continuation postconditions: what this function guarantees when it hands on
			env := ex.envFor(fr, st)
			for _, cl := range fr.ct.AtNext {
				tv, err := env.Translate(cl.E, "Bool")
				if err != nil {
					unsupported("at_next %s: %v", cl.Label, err)
				}
				props := cl.Props
				if len(props) == 0 {
					props = fr.ct.Props
				}
				ex.addObl("at-next", cl.Label, props, st, tv.T, fmt.Sprintf("%s:%d", cl.File, cl.Line), cl.Text)
			}
			ex.nextCalls++
			return ex.havocCall(com.Signature(), args, com.Args, st, "next")
		}
		ex.havoc("dynamic call through " + com.Value.Name())
		return ex.havocCall(com.Signature(), args, com.Args, st, "dyn")
	}
	if fv.Fn.Builtin != nil {
		return ex.builtin(fr, st, fv.Fn.Builtin, com, args, in)
	}
	fn := fv.Fn.Fn
	name := fn.String()
	if isDenied(name) && !onlyFeedsTelemetry(in) {
		// wall clock / randomness / OS: must be unreachable in a function under contract
		// (a value consumed only by cosmos-sdk telemetry is metrics, not state: same exemption as the C01 frame check)
		ex.addObl("frame", "denied-call-"+sanitizeLabel(name), ex.propsOf(), st, "false", ex.pos(in), "call of "+name+" must be unreachable (nondeterminism source)")
	}
	if m, ok := goModels[name]; ok {
		if out, handled := m(ex, fr, st, com, args, in); handled {
			ex.models[name] = true
			return out
		}
	}
	if c := ex.cs.Lookup(name); c != nil && !c.Inline {
		var ptypes []types.Type
		for _, p := range fn.Params {
			ptypes = append(ptypes, p.Type())
		}
		return ex.applyContract(c, name, fn.Signature, ex.paramNames(fn, c), ptypes, args, st, in)
	}
	c := ex.cs.Lookup(name)
	inl := (c != nil && c.Inline) || inlineLeaves[name] || (fn.Parent() != nil) || fn.Synthetic != ""
	if inl && len(fn.Blocks) > 0 {
		ex.inlined[name] = true
		ex.callers = append(ex.callers, fr)
		outs := ex.run(fn, args, fv.Fn.Bindings, st, false, nil)
		ex.callers = ex.callers[:len(ex.callers)-1]
		return outs
	}
	if fn.Pkg != nil && ex.prog.isRepoPkg(fn.Pkg.Pkg.Path()) && c == nil && autoInlinable(fn) && !ex.onStack(fn, fr) && len(ex.callers) < 10 {
		// a small loop-free helper without a contract of its own is part of its caller: executed from its real body
		// (keeps harmless refactorings - extracting a helper - from losing the proof; listed under inlined functions)
		ex.inlined[name] = true
		ex.callers = append(ex.callers, fr)
		outs := ex.run(fn, args, fv.Fn.Bindings, st, false, nil)
		ex.callers = ex.callers[:len(ex.callers)-1]
		return outs
	}
	if fn.Pkg != nil && ex.prog.isRepoPkg(fn.Pkg.Pkg.Path()) {
		if why := ex.prog.mayChangeState(fn, ex.cs); why != "" {
			ex.havoc("call of repository function " + shortFn(name) + " without contract: module state forgotten (" + why + ")")
			for g := range st.ghost {
				st.ghost[g] = ex.u.Fresh("havoc."+g, ex.ghostSort(g))
			}
			st.wrote = true
		} else {
			// nothing the helper can reach writes a store, calls a bank mutator or a contracted function with a
			// modifies clause: module state is kept, the results (and pointees of pointer arguments) are unknown
			ex.havoc("call of repository function " + shortFn(name) + " without contract: reaches no state change (closed-world call graph), results unknown")
		}
		if ex.ct != nil && ex.ct.NoPanic {
			ex.addObl("safe", "callee-may-panic-"+sanitizeLabel(shortFn(name)), ex.ct.Props, st, "false", ex.pos(in), "nopanic: the callee "+shortFn(name)+" has no contract and is too large to be executed from its body")
		}
	} else {
		ex.havoc("call of " + shortFn(name) + " (no contract)")
		// a function that must not panic may only call external code whose behaviour is stated: an assumed contract
		// in /verif/trusted, or an entry in the list of harmless presentation functions
		if ex.ct != nil && ex.ct.NoPanic && !ex.cs.IsHarmless(name) {
			ex.addObl("safe", "callee-without-contract-"+sanitizeLabel(shortFn(name)), ex.ct.Props, st, "false", ex.pos(in), "nopanic: the external function "+shortFn(name)+" has neither an assumed contract nor an entry in the harmless list")
		}
	}
	return ex.havocCall(fn.Signature, args, com.Args, st, "res")
}

// small external leaf functions executed from their real source
var inlineLeaves = map[string]bool{
	"(encoding/binary.bigEndian).PutUint64":                        true,
	"(encoding/binary.bigEndian).Uint64":                           false,
	"github.com/cosmos/cosmos-sdk/types/address.LengthPrefix":      true,
	"github.com/cosmos/cosmos-sdk/types/address.MustLengthPrefix":  true,
	"github.com/cosmos/cosmos-sdk/types.ParseLengthPrefixedBytes":  true,
	"github.com/cosmos/cosmos-sdk/types/kv.AssertKeyAtLeastLength": true,
	"github.com/cosmos/cosmos-sdk/types/kv.AssertKeyLength":        true,
	"(github.com/cosmos/cosmos-sdk/types.AccAddress).Bytes":        true,
	"(github.com/cosmos/cosmos-sdk/types.AccAddress).Empty":        true,
	"(github.com/cosmos/cosmos-sdk/types.AccAddress).Equals":       true,
	"github.com/cosmos/cosmos-sdk/types.NewCoin":                   true,
	"github.com/cosmos/cosmos-sdk/types.NewInt64Coin":              true,
	"github.com/cosmos/cosmos-sdk/types.NewDecCoinFromCoin":        true,
	"(github.com/cosmos/cosmos-sdk/types.Coin).Validate":           true,
	"(github.com/cosmos/cosmos-sdk/types.Coin).IsValid":            true,
	"(github.com/cosmos/cosmos-sdk/types.Coin).IsZero":             true,
	"(github.com/cosmos/cosmos-sdk/types.Coin).IsGTE":              true,
	"(github.com/cosmos/cosmos-sdk/types.Coin).IsLT":               true,
	"(github.com/cosmos/cosmos-sdk/types.Coin).IsLTE":              true,
	"(github.com/cosmos/cosmos-sdk/types.Coin).IsEqual":            true,
	"(github.com/cosmos/cosmos-sdk/types.Coin).Add":                true,
	"(github.com/cosmos/cosmos-sdk/types.Coin).AddAmount":          true,
	"(github.com/cosmos/cosmos-sdk/types.Coin).Sub":                true,
	"(github.com/cosmos/cosmos-sdk/types.Coin).SafeSub":            true,
	"(github.com/cosmos/cosmos-sdk/types.Coin).SubAmount":          true,
	"(github.com/cosmos/cosmos-sdk/types.Coin).IsPositive":         true,
	"(github.com/cosmos/cosmos-sdk/types.Coin).IsNegative":         true,
	"(github.com/cosmos/cosmos-sdk/types.Coin).IsNil":              true,
}

func (ex *Exec) havocCall(sig *types.Signature, args []Val, argVals []ssa.Value, st *State, name string) []Outcome {
	// pointees of pointer arguments are forgotten
	for i, a := range args {
		if a.P != nil && a.P.Cell != nil {
			if _, live := st.cells[a.P.Cell]; live {
				_ = i
				fv := ex.u.Fresh("havoc.cell", ex.u.SortOf(a.P.Cell.typ))
				st.assume(ex.u.WellTyped(a.P.Cell.typ, fv, 0))
				st.cells[a.P.Cell] = fv
			}
		}
		if a.Bk != nil {
			fv := ex.u.Fresh("havoc.arr", ex.u.SortOf(a.Bk.Cell.typ))
			st.cells[a.Bk.Cell] = fv
		}
	}
	var rs []Val
	for i := 0; i < sig.Results().Len(); i++ {
		rs = append(rs, ex.freshResult(sig.Results().At(i).Type(), fmt.Sprintf("%s.%d", name, i), st))
	}
	return []Outcome{{st: st, results: rs}}
}

// freshResult: like freshVal but pointers may be nil.
func (ex *Exec) freshResult(t types.Type, name string, st *State) Val {
	if _, ok := t.Underlying().(*types.Pointer); ok {
		v := ex.freshVal(t, name, st)
		v.P.NilT = ex.u.Fresh(name+".isnil", "Bool")
		return v
	}
	if _, ok := t.Underlying().(*types.Signature); ok {
		return Val{T: ex.u.Fresh(name, "Fn")}
	}
	return ex.freshVal(t, name, st)
}

// applyContract: modular call - check requires, havoc, assume ensures.
func (ex *Exec) applyContract(c *Contract, key string, sig *types.Signature, pnames []string, ptypes []types.Type, args []Val, st *State, in ssa.Instruction) []Outcome {
	ex.assumed[key] = true
	n := ex.seq("call:" + key)
	pre := &Env{u: ex.u, vars: map[string]TV{}, bound: map[string]string{}, lets: map[string]*Expr{}}
	for g, t := range st.ghost {
		pre.vars[g] = TV{t, ex.ghostSort(g)}
	}
	for i, a := range args {
		if i < len(pnames) && pnames[i] != "" && pnames[i] != "_" {
			pre.vars[pnames[i]] = ex.valTV(a, ptypes[i], st)
		}
	}
	for _, l := range c.Lets {
		pre.lets[l.Name] = l.E
	}
	pre.old = pre
	label := fmt.Sprintf("%s@%d", shortCallee(key), n)
	for _, cl := range c.Requires {
		tv, err := pre.Translate(cl.E, "Bool")
		if err != nil {
			unsupported("requires of %s: %v", key, err)
		}
		ex.addObl("pre", label, ex.propsOf(), st, tv.T, ex.pos(in), "requires "+cl.Text)
		st.assume(tv.T)
	}
	for _, cl := range c.PanicsUnless {
		tv, err := pre.Translate(cl.E, "Bool")
		if err != nil {
			unsupported("panics_unless of %s: %v", key, err)
		}
		ex.mayPanic(st, tv.T, "call-"+label, in)
	}
	// a function that must not panic may only call repository functions that must not panic either
	if ex.ct != nil && ex.ct.NoPanic && !c.Extern {
		if !c.NoPanic {
			if !c.Trusted {
				ex.addObl("safe", "callee-may-panic-"+label, ex.ct.Props, st, "false", ex.pos(in), "nopanic: the callee "+shortFn(key)+" is not under a nopanic contract")
			}
		} else {
			for _, cl := range c.NoPanicIf {
				tv, err := pre.Translate(cl.E, "Bool")
				if err != nil {
					unsupported("nopanic_if of %s: %v", key, err)
				}
				ex.addObl("safe", "callee-nopanic-condition-"+label, ex.ct.Props, st, tv.T, ex.pos(in), "nopanic: condition under which "+shortFn(key)+" cannot panic: "+cl.Text)
			}
		}
	}
	// havoc
	for _, g := range c.Modifies {
		if _, ok := st.ghost[g]; !ok {
			fatalf("contract %s modifies unknown ghost %s", key, g)
		}
		st.ghost[g] = ex.u.Fresh("post."+g, ex.ghostSort(g))
		st.wrote = true
	}
	for _, mp := range c.ModifiesPtr {
		for i, pn := range pnames {
			if pn == mp && args[i].P != nil && args[i].P.Cell != nil {
				fv := ex.u.Fresh("post."+pn, ex.u.SortOf(args[i].P.Cell.typ))
				st.assume(ex.u.WellTyped(args[i].P.Cell.typ, fv, 0))
				st.cells[args[i].P.Cell] = ex.writePath(st.cells[args[i].P.Cell], args[i].P.Cell.typ, args[i].P.Path, fv)
			}
		}
	}
	post := &Env{u: ex.u, vars: map[string]TV{}, bound: map[string]string{}, lets: pre.lets, old: pre}
	for g, t := range st.ghost {
		post.vars[g] = TV{t, ex.ghostSort(g)}
	}
	for i, a := range args {
		if i < len(pnames) && pnames[i] != "" && pnames[i] != "_" {
			post.vars[pnames[i]] = ex.valTV(a, ptypes[i], st)
		}
	}
	rnames := resultNames(sig, c)
	var rs []Val
	for i := 0; i < sig.Results().Len(); i++ {
		rt := sig.Results().At(i).Type()
		rv := ex.freshResult(rt, "r."+shortCallee(key)+"."+rnames[i], st)
		rs = append(rs, rv)
		post.vars[rnames[i]] = ex.valTV(rv, rt, st)
		if rv.P != nil {
			post.vars[rnames[i]+"$isnil"] = TV{rv.P.NilT, "Bool"}
		}
	}
	for _, cl := range c.Ensures {
		tv, err := post.Translate(cl.E, "Bool")
		if err != nil {
			unsupported("ensures of %s: %v", key, err)
		}
		st.assume(tv.T)
	}
	for _, cl := range c.Abstracts {
		tv, err := post.Translate(cl.E, "Bool")
		if err != nil {
			unsupported("abstracts of %s: %v", key, err)
		}
		st.assume(tv.T)
		ex.models["abstraction step (justified by the C18 key lemmas, not by this body): "+shortFn(key)+": "+cl.Text] = true
	}
	return []Outcome{{st: st, results: rs}}
}

func shortCallee(key string) string {
	k := shortFn(key)
	if i := strings.LastIndex(k, "/"); i >= 0 {
		k = k[i+1:]
	}
	return strings.NewReplacer("(", "", ")", "", "*", "").Replace(k)
}

func (ex *Exec) propsOf() []string {
	if ex.ct != nil {
		return ex.ct.Props
	}
	return nil
}

// ---------------------------------------------------------------- builtins

func (ex *Exec) builtin(fr *Frame, st *State, b *ssa.Builtin, com *ssa.CallCommon, args []Val, in ssa.Instruction) []Outcome {
	u := ex.u
	one := func(v Val) []Outcome { return []Outcome{{st: st, results: []Val{v}}} }
	switch b.Name() {
	case "len", "cap":
		a := args[0]
		switch tt := com.Args[0].Type().Underlying().(type) {
		case *types.Slice:
			if a.Bk != nil {
				if b.Name() == "len" {
					return one(Val{T: a.Bk.Len})
				}
				return one(Val{T: a.Bk.Cap})
			}
			if b.Name() == "cap" {
				cp := u.Fresh("cap", "Int")
				st.assume(fmt.Sprintf("(>= %s (sl.len %s))", cp, a.T))
				return one(Val{T: cp})
			}
			return one(Val{T: "(sl.len " + a.T + ")"})
		case *types.Basic:
			return one(Val{T: "(s.len " + a.T + ")"})
		case *types.Array:
			return one(Val{T: fmt.Sprint(tt.Len())})
		case *types.Pointer:
			return one(Val{T: fmt.Sprint(tt.Elem().Underlying().(*types.Array).Len())})
		case *types.Map:
			ex.havoc("len(map)")
			l := u.Fresh("maplen", "Int")
			st.assume("(>= " + l + " 0)")
			return one(Val{T: l})
		}
	case "append":
		return one(ex.appendModel(st, com, args))
	case "copy":
		return ex.copyModel(st, com, args)
	case "delete":
		m := args[0]
		k := ex.pure(args[1], com.Args[1].Type(), st)
		mt := com.Args[0].Type().Underlying().(*types.Map)
		fr.regs[com.Args[0]] = Val{T: fmt.Sprintf("(store %s %s (as None (Opt %s)))", m.T, k, u.SortOf(mt.Elem()))}
		return []Outcome{{st: st}}
	case "print", "println":
		return []Outcome{{st: st}}
	case "min", "max":
		f := "imin"
		if b.Name() == "max" {
			f = "imax"
		}
		t := ex.pure(args[0], com.Args[0].Type(), st)
		for i := 1; i < len(args); i++ {
			t = fmt.Sprintf("(%s %s %s)", f, t, ex.pure(args[i], com.Args[i].Type(), st))
		}
		return one(Val{T: t})
	case "recover":
		unsupported("recover")
	}
	unsupported("builtin %s", b.Name())
	return nil
}

// appendModel: the result is a fresh slice value; possible sharing of the
// backing array is outside the model (see DESIGN: lemma fresh-backing).
func (ex *Exec) appendModel(st *State, com *ssa.CallCommon, args []Val) Val {
	u := ex.u
	st0 := com.Args[0].Type().Underlying().(*types.Slice)
	es := u.SortOf(st0.Elem())
	var aArr, aLen string
	if args[0].Bk != nil {
		aArr = ex.readPath(st.cells[args[0].Bk.Cell], args[0].Bk.Cell.typ, args[0].Bk.Path)
		aLen = args[0].Bk.Len
	} else {
		aArr = "(sl.arr " + args[0].T + ")"
		aLen = "(sl.len " + args[0].T + ")"
	}
	var bArr, bLen string
	if bs, ok := com.Args[1].Type().Underlying().(*types.Basic); ok && bs.Info()&types.IsString != 0 {
		bArr = "(sl.arr (s.bytes " + args[1].T + "))"
		bLen = "(s.len " + args[1].T + ")"
	} else if args[1].Bk != nil {
		bArr = ex.readPath(st.cells[args[1].Bk.Cell], args[1].Bk.Cell.typ, args[1].Bk.Path)
		bLen = args[1].Bk.Len
	} else {
		bArr = "(sl.arr " + args[1].T + ")"
		bLen = "(sl.len " + args[1].T + ")"
	}
	// constant small second operand: explicit stores
	if isIntLit(bLen) {
		n := 0
		fmt.Sscan(bLen, &n)
		if n <= 8 {
			arr := aArr
			for i := 0; i < n; i++ {
				arr = fmt.Sprintf("(store %s (+ %s %d) (select %s %d))", arr, aLen, i, bArr, i)
			}
			return Val{T: fmt.Sprintf("(mkSlice (+ %s %d) %s false)", aLen, n, arr)}
		}
	}
	r := u.Fresh("app", "(Array Int "+es+")")
	st.assume(fmt.Sprintf("(forall ((i!a Int)) (! (=> (and (<= 0 i!a) (< i!a %s)) (= (select %s i!a) (select %s i!a))) :pattern ((select %s i!a))))", aLen, r, aArr, r))
	st.assume(fmt.Sprintf("(forall ((i!a Int)) (! (=> (and (<= 0 i!a) (< i!a %s)) (= (select %s (+ %s i!a)) (select %s i!a))) :pattern ((select %s i!a))))", bLen, r, aLen, bArr, bArr))
	st.assume(fmt.Sprintf("(forall ((i!a Int)) (! (=> (and (<= %s i!a) (< i!a (+ %s %s))) (= (select %s i!a) (select %s (- i!a %s)))) :pattern ((select %s i!a))))", aLen, aLen, bLen, r, bArr, aLen, r))
	isnil := "false"
	if args[0].Bk == nil {
		isnil = fmt.Sprintf("(and (sl.nil %s) (= %s 0))", args[0].T, bLen)
	}
	return Val{T: fmt.Sprintf("(mkSlice (+ %s %s) %s %s)", aLen, bLen, r, isnil)}
}

func (ex *Exec) copyModel(st *State, com *ssa.CallCommon, args []Val) []Outcome {
	dst, src := args[0], args[1]
	if dst.Bk == nil {
		unsupported("copy into a slice without known backing store")
	}
	var sArr, sLen string
	if bs, ok := com.Args[1].Type().Underlying().(*types.Basic); ok && bs.Info()&types.IsString != 0 {
		sArr = "(sl.arr (s.bytes " + src.T + "))"
		sLen = "(s.len " + src.T + ")"
	} else if src.Bk != nil {
		sArr = ex.readPath(st.cells[src.Bk.Cell], src.Bk.Cell.typ, src.Bk.Path)
		sLen = src.Bk.Len
	} else {
		sArr = "(sl.arr " + src.T + ")"
		sLen = "(sl.len " + src.T + ")"
	}
	n := fmt.Sprintf("(imin %s %s)", dst.Bk.Len, sLen)
	old := ex.readPath(st.cells[dst.Bk.Cell], dst.Bk.Cell.typ, dst.Bk.Path)
	at := ex.pathType(dst.Bk.Cell.typ, dst.Bk.Path).Underlying().(*types.Array)
	r := ex.u.Fresh("copied", "(Array Int "+ex.u.SortOf(at.Elem())+")")
	st.assume(fmt.Sprintf("(forall ((i!c Int)) (! (= (select %s i!c) (ite (and (<= 0 i!c) (< i!c %s)) (select %s i!c) (select %s i!c))) :pattern ((select %s i!c))))", r, n, sArr, old, r))
	st.cells[dst.Bk.Cell] = ex.writePath(st.cells[dst.Bk.Cell], dst.Bk.Cell.typ, dst.Bk.Path, r)
	return []Outcome{{st: st, results: []Val{{T: n}}}}
}

// onStack: fn is being executed already (recursion is never unfolded)
func (ex *Exec) onStack(fn *ssa.Function, cur *Frame) bool {
	if cur != nil && cur.fn == fn {
		return true
	}
	for _, f := range ex.callers {
		if f.fn == fn {
			return true
		}
	}
	return false
}

// autoInlinable: loop-free repository functions of at most 400 SSA instructions.
func autoInlinable(fn *ssa.Function) bool {
	if len(fn.Blocks) == 0 || len(findLoops(fn).headers) > 0 {
		return false
	}
	n := 0
	for _, b := range fn.Blocks {
		n += len(b.Instrs)
	}
	return n <= 400
}
