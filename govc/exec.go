package main

import (
	"fmt"
	"go/ast"
	"go/constant"
	"go/token"
	"go/types"
	"os"
	"sort"
	"strings"
	"sync"
	"time"

	"golang.org/x/tools/go/ssa"
)

// ---------------------------------------------------------------- values

type Cell struct {
	id   int
	typ  types.Type
	name string
}

type PathEl struct {
	Field int
	Idx   string
	IsIdx bool
}

type Ptr struct {
	Cell    *Cell
	Path    []PathEl
	NilT    string // SMT Bool: pointer is nil ("false" when known non-nil, "true" for the nil pointer)
	Glob    *ssa.Global
	Unknown bool
}

type Backed struct {
	Cell *Cell
	Path []PathEl // path to the array inside the cell
	Len  string
	Cap  string
	NilT string // nil flag of the slice this was materialised from ("" = not nil)
}

type FnVal struct {
	Fn       *ssa.Function
	Bindings []Val
	Builtin  *ssa.Builtin
}

type Val struct {
	T     string
	P     *Ptr
	Fn    *FnVal
	Tup   []Val
	Bk    *Backed
	Store string // KV store handle: ghost name
	It    int    // iterator handle (index into State.iters), 0 = none
}

// IterState is the ghost state of a store iterator: it ranges, in key order, over the keys of a
// snapshot of the store that lie under a prefix.
type IterState struct {
	Store    string
	Snapshot string
	Prefix   string
	Cur      string // current key (meaningful when Valid)
	Valid    string // SMT Bool
	Reverse  bool
	Limit    int // 0 = unlimited (paginated iterators with page 1: limit items)
	Consumed int
	Closed   bool
}

// ---------------------------------------------------------------- state

type State struct {
	iters  map[int]*IterState
	visits map[*ssa.BasicBlock]int
	cells  map[*Cell]string
	ghost  map[string]string
	pc     []string
	cut    map[*ssa.BasicBlock]bool
	wrote  bool // some ghost store write happened on this path
	depth  int
	defers []*ssa.Defer
}

func (s *State) clone() *State {
	n := &State{cells: make(map[*Cell]string, len(s.cells)), ghost: make(map[string]string, len(s.ghost)), cut: make(map[*ssa.BasicBlock]bool, len(s.cut)), wrote: s.wrote, depth: s.depth}
	for k, v := range s.cells {
		n.cells[k] = v
	}
	for k, v := range s.ghost {
		n.ghost[k] = v
	}
	for k, v := range s.cut {
		n.cut[k] = v
	}
	n.pc = append([]string(nil), s.pc...)
	n.defers = append([]*ssa.Defer(nil), s.defers...)
	if s.iters != nil {
		n.iters = make(map[int]*IterState, len(s.iters))
		for k, v := range s.iters {
			c := *v
			n.iters[k] = &c
		}
	}
	if s.visits != nil {
		n.visits = make(map[*ssa.BasicBlock]int, len(s.visits))
		for k, v := range s.visits {
			n.visits[k] = v
		}
	}
	return n
}

func (s *State) assume(f string) {
	if f == "true" || f == "" {
		return
	}
	// top-level conjunctions are split so that the quantifier-free parts survive when quantified
	// assertions are dropped for candidate-model search
	if strings.HasPrefix(f, "(and ") {
		if parts := splitTop(f[5 : len(f)-1]); len(parts) > 1 {
			for _, p := range parts {
				s.assume(p)
			}
			return
		}
	}
	s.pc = append(s.pc, f)
}

type Frame struct {
	fn        *ssa.Function
	regs      map[ssa.Value]Val
	top       bool
	ct        *Contract
	loops     *loopInfo
	names     map[string]ssa.Value     // source names of locals (from DebugRef), latest binding on this path
	loopEntry map[*ssa.BasicBlock]*Env // environment on first entry to a loop header (for at_loop_entry in invariants)
}

func (f *Frame) clone() *Frame {
	n := &Frame{fn: f.fn, regs: make(map[ssa.Value]Val, len(f.regs)), top: f.top, ct: f.ct, loops: f.loops, names: make(map[string]ssa.Value, len(f.names)), loopEntry: map[*ssa.BasicBlock]*Env{}}
	for k, v := range f.loopEntry {
		n.loopEntry[k] = v
	}
	for k, v := range f.regs {
		n.regs[k] = v
	}
	for k, v := range f.names {
		n.names[k] = v
	}
	return n
}

type Outcome struct {
	st      *State
	results []Val
}

// ---------------------------------------------------------------- obligations

type Obligation struct {
	Name    string // function#kind:label
	Func    string
	Kind    string
	Props   []string
	Query   string // assertions only (declarations added at solve time)
	Decls   string
	Inputs  []string // constants to get values for
	Where   string
	Clause  string
	Expect  string // "unsat" (default) or "sat" for covers
	Result  *SolverResult
	Trivial bool
	Quick   bool // recorded known finding: expected to stay undischarged, solved with a short time-out
}

type unsupportedErr struct{ msg string }

func unsupported(format string, a ...interface{}) {
	panic(unsupportedErr{fmt.Sprintf(format, a...)})
}

// ---------------------------------------------------------------- executor

type Exec struct {
	modDepth      int // nesting of fnModifies through uncontracted helpers
	prog          *Program
	u             *Univ
	cs            *ContractSet
	fn            *ssa.Function
	ct            *Contract
	obls          []*Obligation
	ncell         int
	npaths        int
	havocs        []string
	inlined       map[string]bool
	assumed       map[string]bool // contracts of callees used (assumed at call sites)
	models        map[string]bool // engine models used
	oldEnv        *Env
	inputs        []string
	entrySt       *State
	paramVal      map[string]Val
	callSeq       map[string]int
	maxPaths      int
	globFacts     map[string]bool
	callerNoPanic bool
	warnings      []string
	prune         bool
	nfeas         int
	nextCalls     int
	callers       []*Frame // frames waiting for an inlined callee, outermost first
	noPanicCond   string   // entry condition under which panics must be unreachable ("" = always)
}

func (ex *Exec) newCell(t types.Type, name string) *Cell {
	ex.ncell++
	return &Cell{id: ex.ncell, typ: t, name: name}
}

func (ex *Exec) havoc(why string) {
	ex.havocs = append(ex.havocs, why)
}

// fresh symbolic value of a Go type
func (ex *Exec) freshVal(t types.Type, name string, st *State) Val {
	if pt, ok := t.Underlying().(*types.Pointer); ok {
		c := ex.newCell(pt.Elem(), name)
		fv := ex.freshVal(pt.Elem(), name+".val", st)
		st.cells[c] = ex.pure(fv, pt.Elem(), st)
		if fv.P != nil {
			// pointer to a pointer (a captured pointer variable): remember where the inner pointer leads
			ex.storeOpaque(&Ptr{Cell: c, NilT: "false"}, fv, st)
		}
		return Val{P: &Ptr{Cell: c, NilT: "false"}}
	}
	if tup, ok := t.(*types.Tuple); ok {
		var vs []Val
		for i := 0; i < tup.Len(); i++ {
			vs = append(vs, ex.freshVal(tup.At(i).Type(), fmt.Sprintf("%s.%d", name, i), st))
		}
		return Val{Tup: vs}
	}
	s := ex.u.SortOf(t)
	c := ex.u.Fresh(name, s)
	st.assume(ex.u.WellTyped(t, c, 0))
	return Val{T: c}
}

// pure returns the SMT term for a value (snapshotting backed slices).
func (ex *Exec) pure(v Val, t types.Type, st *State) string {
	if v.Bk != nil {
		arr := ex.readPath(st.cells[v.Bk.Cell], v.Bk.Cell.typ, v.Bk.Path)
		nilT := "false"
		if v.Bk.NilT != "" {
			nilT = v.Bk.NilT
		}
		return fmt.Sprintf("(mkSlice %s %s %s)", v.Bk.Len, arr, nilT)
	}
	if v.T != "" {
		return v.T
	}
	if v.P != nil {
		// pointers inside SMT land are opaque
		if v.P.NilT == "true" {
			return ex.u.Const("ref.nil", "Ref")
		}
		if v.P.Cell != nil && len(v.P.Path) == 0 && !v.P.Unknown && v.P.NilT == "false" {
			// a pointer to a whole object has a stable identity (one constant per object)
			return ex.u.Const(fmt.Sprintf("cellref!%d", v.P.Cell.id), "Ref")
		}
		return ex.u.Fresh("ref", "Ref")
	}
	if v.Fn != nil {
		return ex.u.Fresh("fn", "Fn")
	}
	if v.Store != "" {
		return ex.u.Fresh("storehandle", "Iface")
	}
	if v.It != 0 {
		return ex.u.Fresh("iterhandle", "Iface")
	}
	return ex.u.Fresh("opaque", ex.u.SortOf(t))
}

// acc applies a datatype accessor, folding accessor-of-constructor.
func acc(info *StructInfo, i int, term string) string {
	pre := "(" + info.Ctor + " "
	if strings.HasPrefix(term, pre) {
		if parts := splitTop(term[len(pre) : len(term)-1]); len(parts) == len(info.Fields) {
			return parts[i]
		}
	}
	return "(" + info.Fields[i].Acc + " " + term + ")"
}

// splitTop splits a space separated list of s-expressions at the top level.
func splitTop(s string) []string {
	var out []string
	d, st := 0, -1
	for i := 0; i < len(s); i++ {
		c := s[i]
		switch {
		case c == '(':
			if d == 0 && st < 0 {
				st = i
			}
			d++
		case c == ')':
			d--
			if d == 0 {
				out = append(out, s[st:i+1])
				st = -1
			}
		case c == ' ' || c == '\n':
			if d == 0 && st >= 0 {
				out = append(out, s[st:i])
				st = -1
			}
		default:
			if d == 0 && st < 0 {
				st = i
			}
		}
	}
	if st >= 0 {
		out = append(out, s[st:])
	}
	return out
}

func (ex *Exec) readPath(term string, t types.Type, path []PathEl) string {
	for _, pe := range path {
		t = types.Unalias(t)
		if pe.IsIdx {
			switch tt := t.Underlying().(type) {
			case *types.Array:
				term = fmt.Sprintf("(select %s %s)", term, pe.Idx)
				t = tt.Elem()
			default:
				unsupported("index path through %s", t)
			}
		} else {
			st, ok := t.Underlying().(*types.Struct)
			if !ok {
				unsupported("field path through %s", t)
			}
			sort := ex.u.SortOf(t)
			info := ex.u.structs[sort]
			if info == nil {
				unsupported("field path through opaque %s", t)
			}
			term = acc(info, pe.Field, term)
			t = st.Field(pe.Field).Type()
		}
	}
	return term
}

func (ex *Exec) pathType(t types.Type, path []PathEl) types.Type {
	for _, pe := range path {
		if pe.IsIdx {
			t = t.Underlying().(*types.Array).Elem()
		} else {
			t = t.Underlying().(*types.Struct).Field(pe.Field).Type()
		}
	}
	return t
}

func (ex *Exec) writePath(term string, t types.Type, path []PathEl, v string) string {
	if len(path) == 0 {
		return v
	}
	pe := path[0]
	if pe.IsIdx {
		at, ok := t.Underlying().(*types.Array)
		if !ok {
			unsupported("index write through %s", t)
		}
		inner := ex.writePath(fmt.Sprintf("(select %s %s)", term, pe.Idx), at.Elem(), path[1:], v)
		return fmt.Sprintf("(store %s %s %s)", term, pe.Idx, inner)
	}
	st, ok := t.Underlying().(*types.Struct)
	if !ok {
		unsupported("field write through %s", t)
	}
	sort := ex.u.SortOf(t)
	info := ex.u.structs[sort]
	if info == nil {
		unsupported("field write through opaque %s", t)
	}
	parts := []string{info.Ctor}
	for i := range info.Fields {
		if i == pe.Field {
			parts = append(parts, ex.writePath(acc(info, i, term), st.Field(i).Type(), path[1:], v))
		} else {
			parts = append(parts, acc(info, i, term))
		}
	}
	return "(" + strings.Join(parts, " ") + ")"
}

func (ex *Exec) load(p *Ptr, st *State, what string) string {
	if p.Unknown || p.Cell == nil {
		unsupported("load through unknown pointer (%s)", what)
	}
	c, ok := st.cells[p.Cell]
	if !ok {
		unsupported("load from dead cell %s", p.Cell.name)
	}
	return ex.readPath(c, p.Cell.typ, p.Path)
}

func (ex *Exec) store(p *Ptr, v string, st *State, what string) {
	if p.Unknown || p.Cell == nil {
		unsupported("store through unknown pointer (%s)", what)
	}
	st.cells[p.Cell] = ex.writePath(st.cells[p.Cell], p.Cell.typ, p.Path, v)
}

// ---------------------------------------------------------------- obligations

func (ex *Exec) addObl(kind, label string, props []string, st *State, goal string, where, clause string) {
	name := fmt.Sprintf("%s#%s:%s", shortFn(ex.fn.String()), kind, label)
	var b strings.Builder
	for _, a := range st.pc {
		b.WriteString("(assert " + a + ")\n")
	}
	if kind == "safe" && ex.noPanicCond != "" {
		// nopanic_if: only entry states satisfying the condition must be panic-free
		b.WriteString("(assert " + ex.noPanicCond + ")\n")
	}
	b.WriteString("(assert " + not(goal) + ")\n")
	o := &Obligation{Name: name, Func: ex.fn.String(), Kind: kind, Props: props, Query: b.String(), Where: where, Clause: clause, Inputs: ex.inputs}
	if goal == "true" {
		o.Trivial = true
	}
	ex.obls = append(ex.obls, o)
}

func (ex *Exec) addCover(label string, st *State, extra string) {
	name := fmt.Sprintf("%s#cover:%s", shortFn(ex.fn.String()), label)
	var b strings.Builder
	for _, a := range st.pc {
		b.WriteString("(assert " + a + ")\n")
	}
	if extra != "" && extra != "true" {
		b.WriteString("(assert " + extra + ")\n")
	}
	ex.obls = append(ex.obls, &Obligation{Name: name, Func: ex.fn.String(), Kind: "cover", Query: b.String(), Expect: "sat", Inputs: ex.inputs})
}

func shortFn(s string) string {
	s = strings.ReplaceAll(s, "github.com/unification-com/mainchain/", "")
	s = strings.ReplaceAll(s, "github.com/cosmos/cosmos-sdk/", "sdk/")
	return s
}

// ---------------------------------------------------------------- constants

func (ex *Exec) constVal(c *ssa.Const) Val {
	t := c.Type()
	if c.Value == nil {
		// zero value / nil
		switch tt := t.Underlying().(type) {
		case *types.Pointer:
			return Val{P: &Ptr{NilT: "true"}}
		case *types.Signature:
			return Val{T: ex.u.Const("fn.nil", "Fn")}
		case *types.Basic:
			if tt.Kind() == types.UntypedNil {
				return Val{T: "iface.nil"}
			}
		}
		return Val{T: ex.u.Zero(t)}
	}
	switch c.Value.Kind() {
	case constant.Bool:
		if constant.BoolVal(c.Value) {
			return Val{T: "true"}
		}
		return Val{T: "false"}
	case constant.Int:
		s := c.Value.ExactString()
		if strings.HasPrefix(s, "-") {
			return Val{T: "(- " + s[1:] + ")"}
		}
		return Val{T: s}
	case constant.String:
		return Val{T: ex.u.StrLit(constant.StringVal(c.Value))}
	case constant.Float:
		if b, ok := t.Underlying().(*types.Basic); ok && b.Info()&types.IsInteger != 0 {
			if iv := constant.ToInt(c.Value); iv.Kind() == constant.Int {
				return Val{T: smtInt(iv.ExactString())}
			}
		}
		return Val{T: ex.u.Fresh("floatconst", "Float")}
	}
	unsupported("constant %s", c)
	return Val{}
}

func smtInt(s string) string {
	if strings.HasPrefix(s, "-") {
		return "(- " + s[1:] + ")"
	}
	return s
}

// ---------------------------------------------------------------- value lookup

func (ex *Exec) val(fr *Frame, st *State, v ssa.Value) Val {
	switch x := v.(type) {
	case *ssa.Const:
		return ex.constVal(x)
	case *ssa.Global:
		return Val{P: &Ptr{Glob: x, NilT: "false"}}
	case *ssa.Function:
		return Val{Fn: &FnVal{Fn: x}}
	case *ssa.Builtin:
		return Val{Fn: &FnVal{Builtin: x}}
	}
	if r, ok := fr.regs[v]; ok {
		return r
	}
	unsupported("value %s (%T) not available", v.Name(), v)
	return Val{}
}

func (ex *Exec) term(fr *Frame, st *State, v ssa.Value) string {
	return ex.pure(ex.val(fr, st, v), v.Type(), st)
}

// ---------------------------------------------------------------- loops

type loopInfo struct {
	headers map[*ssa.BasicBlock]int                      // header -> ordinal
	body    map[*ssa.BasicBlock]map[*ssa.BasicBlock]bool // header -> blocks
}

func findLoops(fn *ssa.Function) *loopInfo {
	li := &loopInfo{headers: map[*ssa.BasicBlock]int{}, body: map[*ssa.BasicBlock]map[*ssa.BasicBlock]bool{}}
	if len(fn.Blocks) == 0 {
		return li
	}
	// back edge: succ dominates block
	type edge struct{ from, to *ssa.BasicBlock }
	var backs []edge
	for _, b := range fn.Blocks {
		for _, s := range b.Succs {
			if s.Dominates(b) {
				backs = append(backs, edge{b, s})
			}
		}
	}
	var hs []*ssa.BasicBlock
	for _, e := range backs {
		if _, ok := li.body[e.to]; !ok {
			li.body[e.to] = map[*ssa.BasicBlock]bool{e.to: true}
			hs = append(hs, e.to)
		}
		// natural loop
		stack := []*ssa.BasicBlock{e.from}
		for len(stack) > 0 {
			n := stack[len(stack)-1]
			stack = stack[:len(stack)-1]
			if li.body[e.to][n] {
				continue
			}
			li.body[e.to][n] = true
			stack = append(stack, n.Preds...)
		}
	}
	sort.Slice(hs, func(i, j int) bool { return hs[i].Index < hs[j].Index })
	for i, h := range hs {
		li.headers[h] = i
	}
	return li
}

// ---------------------------------------------------------------- running a function body

const maxDepth = 12

// run executes fn's body from its entry with the given arguments and returns
// the outcomes of all paths that reach a return.
func (ex *Exec) run(fn *ssa.Function, args []Val, bindings []Val, st *State, top bool, ct *Contract) []Outcome {
	if len(fn.Blocks) == 0 {
		unsupported("function %s has no body", fn)
	}
	if st.depth > maxDepth {
		unsupported("inlining depth exceeded at %s", fn)
	}
	fr := &Frame{fn: fn, regs: map[ssa.Value]Val{}, top: top, ct: ct, loops: findLoops(fn), names: map[string]ssa.Value{}}
	for i, p := range fn.Params {
		fr.regs[p] = args[i]
	}
	for i, fv := range fn.FreeVars {
		fr.regs[fv] = bindings[i]
	}
	st.depth++
	savedDefers := st.defers
	st.defers = nil
	var outs []Outcome
	ex.execBlock(fr, st, fn.Blocks[0], nil, &outs)
	for i := range outs {
		outs[i].st.depth--
		outs[i].st.defers = savedDefers
	}
	return outs
}

func (ex *Exec) execBlock(fr *Frame, st *State, blk, prev *ssa.BasicBlock, outs *[]Outcome) {
	ex.npaths++
	if ex.npaths > ex.maxPaths {
		unsupported("path budget exceeded (%d)", ex.maxPaths)
	}
	// loop header handling
	if ord, isHeader := fr.loops.headers[blk]; isHeader {
		if !fr.top {
			if invs := ex.inlineInvs(fr, ord); len(invs) > 0 {
				// the contract under verification supplies invariants for this loop of an inlined callee:
				// cut it exactly like a loop of the function itself (names resolve in the top function's scope)
				label := fmt.Sprintf("%s.%d", fr.fn.Name(), ord)
				if st.cut[blk] {
					ex.evalPhis(fr, st, blk, prev)
					ex.checkInvList(fr, st, invs, label, "inv-step")
					return
				}
				ex.evalPhis(fr, st, blk, prev)
				ex.checkInvList(fr, st, invs, label, "inv-init")
				ex.havocLoop(fr, st, blk)
				ex.havocIterators(st)
				st.cut[blk] = true
				ex.assumeInvList(fr, st, invs, label)
				ex.execInstrs(fr, st, blk, firstNonPhi(blk), outs)
				return
			}
			// loops of inlined callees are unrolled; the bound is a resource limit, not an approximation:
			// a path that needs more iterations makes the function fall outside the subset
			if st.visits == nil {
				st.visits = map[*ssa.BasicBlock]int{}
			}
			st.visits[blk]++
			if st.visits[blk] > 4 {
				unsupported("loop in inlined function %s needs more than 4 iterations", fr.fn)
			}
			ex.evalPhis(fr, st, blk, prev)
			ex.execInstrs(fr, st, blk, firstNonPhi(blk), outs)
			return
		}
		if st.cut[blk] {
			// back edge: evaluate phis with the back-edge values, check invariant, stop
			ex.evalPhis(fr, st, blk, prev)
			ex.checkInvariants(fr, st, blk, ord, "inv-step")
			return
		}
		ex.evalPhis(fr, st, blk, prev)
		if fr.loopEntry == nil {
			fr.loopEntry = map[*ssa.BasicBlock]*Env{}
		}
		fr.loopEntry[blk] = ex.invEnv(fr, st, blk)
		ex.checkInvariants(fr, st, blk, ord, "inv-init")
		ex.havocLoop(fr, st, blk)
		ex.havocIterators(st) // a loop may advance any open store iterator
		st.cut[blk] = true
		ex.assumeInvariants(fr, st, blk, ord)
		ex.execInstrs(fr, st, blk, firstNonPhi(blk), outs)
		return
	}
	ex.evalPhis(fr, st, blk, prev)
	ex.execInstrs(fr, st, blk, firstNonPhi(blk), outs)
}

func firstNonPhi(b *ssa.BasicBlock) int {
	for i, in := range b.Instrs {
		if _, ok := in.(*ssa.Phi); !ok {
			return i
		}
	}
	return len(b.Instrs)
}

func (ex *Exec) evalPhis(fr *Frame, st *State, blk, prev *ssa.BasicBlock) {
	if prev == nil {
		return
	}
	idx := -1
	for i, p := range blk.Preds {
		if p == prev {
			idx = i
			break
		}
	}
	if idx < 0 {
		unsupported("phi predecessor not found")
	}
	newVals := map[ssa.Value]Val{}
	for _, in := range blk.Instrs {
		phi, ok := in.(*ssa.Phi)
		if !ok {
			break
		}
		newVals[phi] = ex.val(fr, st, phi.Edges[idx])
	}
	for k, v := range newVals {
		fr.regs[k] = v
	}
}

func (ex *Exec) invEnv(fr *Frame, st *State, blk *ssa.BasicBlock) *Env {
	env := ex.envFor(fr, st)
	for _, in := range blk.Instrs {
		phi, ok := in.(*ssa.Phi)
		if !ok {
			break
		}
		if phi.Comment != "" {
			if v, ok := fr.regs[phi]; ok {
				env.vars[phi.Comment] = ex.valTV(v, phi.Type(), st)
			}
		}
	}
	if _, have := env.vars["rangeindex"]; !have {
		// `for i := 0; i < n; i++` read as a range loop: at the loop head the counter is the number of completed
		// iterations, which in the lowering of `for i := range s` is rangeindex+1 - so invariants written with
		// rangeindex keep their meaning when one loop form is rewritten into the other
		var cand *ssa.Phi
		n := 0
		for _, in := range blk.Instrs {
			phi, ok := in.(*ssa.Phi)
			if !ok {
				break
			}
			if isCountedFromZero(phi) {
				cand = phi
				n++
			}
		}
		if n == 1 {
			if v, ok := fr.regs[cand]; ok {
				tv := ex.valTV(v, cand.Type(), st)
				if tv.S == "Int" {
					env.vars["rangeindex"] = TV{"(- " + tv.T + " 1)", "Int"}
				}
			}
		}
	}
	if fr.loopEntry != nil {
		env.loopEntry = fr.loopEntry[blk]
	}
	ex.addIterVars(env, st)
	return env
}

// isCountedFromZero: an integer phi with one edge the constant 0 and every other edge `phi + 1`.
func isCountedFromZero(phi *ssa.Phi) bool {
	if b, ok := phi.Type().Underlying().(*types.Basic); !ok || b.Info()&types.IsInteger == 0 {
		return false
	}
	zero, inc := 0, 0
	for _, e := range phi.Edges {
		switch x := e.(type) {
		case *ssa.Const:
			if x.Value != nil && x.Value.ExactString() == "0" {
				zero++
				continue
			}
			return false
		case *ssa.BinOp:
			if x.Op == token.ADD && x.X == phi {
				if c, ok := x.Y.(*ssa.Const); ok && c.Value != nil && c.Value.ExactString() == "1" {
					inc++
					continue
				}
			}
			return false
		default:
			return false
		}
	}
	return zero == 1 && inc >= 1
}

func (ex *Exec) checkInvariants(fr *Frame, st *State, blk *ssa.BasicBlock, ord int, kind string) {
	if fr.ct == nil {
		return
	}
	env := ex.invEnv(fr, st, blk)
	for _, cl := range fr.ct.Invariants[ord] {
		tv, err := env.Translate(cl.E, "Bool")
		if err != nil {
			unsupported("loop %d invariant: %v", ord, err)
		}
		ex.addObl(kind, fmt.Sprintf("%d.%s", ord, cl.Label), fr.ct.Props, st, tv.T, fmt.Sprintf("%s:%d", cl.File, cl.Line), cl.Text)
	}
}

func (ex *Exec) assumeInvariants(fr *Frame, st *State, blk *ssa.BasicBlock, ord int) {
	if fr.ct == nil {
		return
	}
	env := ex.invEnv(fr, st, blk)
	for _, cl := range fr.ct.Invariants[ord] {
		tv, err := env.Translate(cl.E, "Bool")
		if err != nil {
			unsupported("loop %d invariant: %v", ord, err)
		}
		st.assume(tv.T)
	}
}

// inlineInvs: invariants the contract under verification gives for loop ord of the inlined callee fr.fn.
func (ex *Exec) inlineInvs(fr *Frame, ord int) []*Clause {
	if ex.ct == nil || ex.ct.InlineInvs == nil || len(ex.callers) == 0 {
		return nil
	}
	return ex.ct.InlineInvs[fmt.Sprintf("%s.%d", fr.fn.Name(), ord)]
}

// inlineInvEnv: the scope of the top function plus the state of the innermost open store iterator
// (it_valid, it_key: the abstract key the iterator stands on, it_store: the snapshot it ranges over).
func (ex *Exec) inlineInvEnv(st *State) *Env {
	env := ex.envFor(ex.callers[0], st)
	ex.addIterVars(env, st)
	return env
}

// addIterVars exposes the innermost open store iterator to invariants (it_valid, it_key, it_store).
func (ex *Exec) addIterVars(env *Env, st *State) {
	best := 0
	for id, it := range st.iters {
		if !it.Closed && id > best {
			best = id
		}
	}
	if best > 0 {
		it := st.iters[best]
		kd := ex.kvdecl(it.Store)
		env.vars["it_valid"] = TV{it.Valid, "Bool"}
		env.vars["it_key"] = TV{it.Cur, kd.KeySort}
		env.vars["it_store"] = TV{it.Snapshot, ex.ghostSort(it.Store)}
	}
}

func (ex *Exec) checkInvList(fr *Frame, st *State, invs []*Clause, label, kind string) {
	env := ex.inlineInvEnv(st)
	for _, cl := range invs {
		tv, err := env.Translate(cl.E, "Bool")
		if err != nil {
			unsupported("loop %s invariant: %v", label, err)
		}
		ex.addObl(kind, label+"."+cl.Label, ex.ct.Props, st, tv.T, fmt.Sprintf("%s:%d", cl.File, cl.Line), cl.Text)
	}
}

func (ex *Exec) assumeInvList(fr *Frame, st *State, invs []*Clause, label string) {
	env := ex.inlineInvEnv(st)
	for _, cl := range invs {
		tv, err := env.Translate(cl.E, "Bool")
		if err != nil {
			unsupported("loop %s invariant: %v", label, err)
		}
		st.assume(tv.T)
	}
}

// havocIterators forgets the position of every open store iterator (the loop advances them).
func (ex *Exec) havocIterators(st *State) {
	for _, it := range st.iters {
		if it.Closed {
			continue
		}
		if it.Limit > 0 {
			unsupported("loop invariant over a paginated iterator")
		}
		kd := ex.kvdecl(it.Store)
		it.Cur = ex.u.Fresh("it.key", kd.KeySort)
		it.Valid = ex.u.Fresh("it.valid", "Bool")
	}
}

// fnModifies: ghost variables a function body (a closure called inside a loop) may change.
func (ex *Exec) fnModifies(fn *ssa.Function, seen map[*ssa.Function]bool) (mods []string, all bool) {
	if seen[fn] {
		return nil, false
	}
	seen[fn] = true
	for _, b := range fn.Blocks {
		for _, in := range b.Instrs {
			ci, ok := in.(ssa.CallInstruction)
			if !ok {
				continue
			}
			com := ci.Common()
			if !com.IsInvoke() {
				if _, isBuiltin := com.Value.(*ssa.Builtin); isBuiltin {
					continue
				}
				if mc, ok := com.Value.(*ssa.MakeClosure); ok {
					m, a := ex.fnModifies(mc.Fn.(*ssa.Function), seen)
					mods = append(mods, m...)
					all = all || a
					continue
				}
			}
			m, a := ex.calleeModifies(com)
			mods = append(mods, m...)
			all = all || a
		}
	}
	return mods, all
}

// havocLoop forgets everything the loop may change.
func (ex *Exec) havocLoop(fr *Frame, st *State, header *ssa.BasicBlock) {
	body := fr.loops.body[header]
	for _, in := range header.Instrs {
		phi, ok := in.(*ssa.Phi)
		if !ok {
			break
		}
		old := fr.regs[phi]
		if old.P != nil || old.Fn != nil || old.Store != "" {
			// pointer-valued loop variables are not supported unless invariant
			same := true
			for _, e := range phi.Edges {
				if e != phi.Edges[0] {
					same = false
				}
			}
			if !same {
				unsupported("pointer-valued loop variable %s", phi.Name())
			}
			continue
		}
		fr.regs[phi] = ex.freshVal(phi.Type(), "loop."+phi.Comment, st)
	}
	// cells written in the loop
	roots := map[*Cell]bool{}
	ghostAll := false
	ghostSome := map[string]bool{}
	var rootOf func(v ssa.Value) *Cell
	rootOf = func(v ssa.Value) *Cell {
		switch x := v.(type) {
		case *ssa.FieldAddr:
			return rootOf(x.X)
		case *ssa.IndexAddr:
			return rootOf(x.X)
		case *ssa.Slice:
			return rootOf(x.X)
		}
		if r, ok := fr.regs[v]; ok {
			if r.P != nil && r.P.Cell != nil {
				return r.P.Cell
			}
			if r.Bk != nil {
				return r.Bk.Cell
			}
		}
		return nil
	}
	for b := range body {
		for _, in := range b.Instrs {
			switch x := in.(type) {
			case *ssa.Store:
				if c := rootOf(x.Addr); c != nil {
					roots[c] = true
				}
			case ssa.CallInstruction:
				com := x.Common()
				for _, a := range com.Args {
					if c := rootOf(a); c != nil {
						roots[c] = true
					}
					if r, ok := fr.regs[a]; ok && r.Fn != nil {
						for _, bnd := range r.Fn.Bindings {
							if bnd.P != nil && bnd.P.Cell != nil {
								roots[bnd.P.Cell] = true
							}
						}
					}
				}
				if r, ok := fr.regs[com.Value]; ok && r.Fn != nil {
					for _, bnd := range r.Fn.Bindings {
						if bnd.P != nil && bnd.P.Cell != nil {
							roots[bnd.P.Cell] = true
						}
					}
				}
				var mods []string
				var all bool
				if r, ok := fr.regs[com.Value]; ok && !com.IsInvoke() && r.Fn != nil && r.Fn.Fn != nil {
					mods, all = ex.fnModifies(r.Fn.Fn, map[*ssa.Function]bool{})
				} else {
					mods, all = ex.calleeModifies(com)
				}
				if all {
					ghostAll = true
				}
				for _, m := range mods {
					ghostSome[m] = true
				}
			}
		}
	}
	for c := range roots {
		if _, live := st.cells[c]; live {
			fv := ex.u.Fresh("loop.cell."+c.name, ex.u.SortOf(c.typ))
			st.assume(ex.u.WellTyped(c.typ, fv, 0))
			st.cells[c] = fv
		}
	}
	for g := range st.ghost {
		if ghostAll || ghostSome[g] {
			st.ghost[g] = ex.u.Fresh("loop."+g, ex.ghostSort(g))
		}
	}
}

func (ex *Exec) ghostSort(name string) string {
	for _, gs := range ex.cs.Ghosts {
		for _, g := range gs {
			if g.Name == name {
				return g.Sort
			}
		}
	}
	fatalf("unknown ghost variable %s", name)
	return ""
}

// calleeModifies tells which ghost variables a call may change.
func (ex *Exec) calleeModifies(com *ssa.CallCommon) (mods []string, all bool) {
	if com.IsInvoke() {
		key := "(" + com.Value.Type().String() + ")." + com.Method.Name()
		if conc, ok := ex.cs.Impls[com.Value.Type().String()]; ok {
			if c := ex.cs.Lookup("(" + conc + ")." + com.Method.Name()); c != nil {
				return c.Modifies, false
			}
		}
		if c := ex.cs.Lookup(key); c != nil {
			return c.Modifies, false
		}
		if m, ok := goModelModifies[com.Method.Name()]; ok && isKVStore(com.Value.Type()) {
			_ = m
			return nil, true
		}
		return nil, false
	}
	if _, isBuiltin := com.Value.(*ssa.Builtin); isBuiltin {
		return nil, false
	}
	if callee := com.StaticCallee(); callee != nil {
		if c := ex.cs.Lookup(callee.String()); c != nil {
			if c.Inline {
				return ex.fnModifies(callee, map[*ssa.Function]bool{})
			}
			return c.Modifies, false
		}
		if callee.Pkg != nil && ex.prog.isRepoPkg(callee.Pkg.Pkg.Path()) {
			// a helper without contract: executed from its body when small (its effects are those of its body),
			// otherwise kept apart from module state only if it can reach no state change at all
			if autoInlinable(callee) {
				if ex.modDepth > 8 {
					return nil, true
				}
				ex.modDepth++
				defer func() { ex.modDepth-- }()
				return ex.fnModifies(callee, map[*ssa.Function]bool{})
			}
			if ex.prog.mayChangeState(callee, ex.cs) == "" {
				return nil, false
			}
			return nil, true
		}
		return nil, false
	}
	// call through a package-level function variable (sdk.NewInt = math.NewInt ...)
	if u, ok := com.Value.(*ssa.UnOp); ok {
		if g, ok := u.X.(*ssa.Global); ok {
			if fn := ex.prog.globalFuncInit(g); fn != nil {
				if c := ex.cs.Lookup(fn.String()); c != nil {
					return c.Modifies, false
				}
				if fn.Pkg == nil || !ex.prog.isRepoPkg(fn.Pkg.Pkg.Path()) {
					return nil, false
				}
			}
		}
	}
	return nil, true
}

var goModelModifies = map[string]bool{"Set": true, "Delete": true}

func isKVStore(t types.Type) bool {
	s := t.String()
	return strings.HasSuffix(s, "store/types.KVStore") || strings.HasSuffix(s, "types.KVStore")
}

func (ex *Exec) execInstrs(fr *Frame, st *State, blk *ssa.BasicBlock, from int, outs *[]Outcome) {
	for i := from; i < len(blk.Instrs); i++ {
		in := blk.Instrs[i]
		switch x := in.(type) {
		case *ssa.If:
			c := ex.term(fr, st, x.Cond)
			if c == "true" {
				ex.execBlock(fr, st, blk.Succs[0], blk, outs)
				return
			}
			if c == "false" {
				ex.execBlock(fr, st, blk.Succs[1], blk, outs)
				return
			}
			switch ex.decide(st, c) {
			case 1:
				ex.execBlock(fr, st, blk.Succs[0], blk, outs)
				return
			case -1:
				ex.execBlock(fr, st, blk.Succs[1], blk, outs)
				return
			}
			st2 := st.clone()
			fr2 := fr.clone()
			st.assume(c)
			st2.assume(not(c))
			t1 := ex.feasible(st)
			t2 := ex.feasible(st2)
			if t1 {
				ex.execBlock(fr, st, blk.Succs[0], blk, outs)
			}
			if t2 {
				ex.execBlock(fr2, st2, blk.Succs[1], blk, outs)
			}
			return
		case *ssa.Jump:
			ex.execBlock(fr, st, blk.Succs[0], blk, outs)
			return
		case *ssa.Return:
			var rs []Val
			for _, r := range x.Results {
				rs = append(rs, ex.val(fr, st, r))
			}
			*outs = append(*outs, Outcome{st: st, results: rs})
			return
		case *ssa.Panic:
			ex.onPanic(fr, st, "explicit panic", in)
			return
		case *ssa.Call:
			// calls may fork
			conts := ex.call(fr, st, x, x.Common(), in)
			for k, oc := range conts {
				f := fr
				if k < len(conts)-1 {
					f = fr.clone()
				}
				if len(oc.results) == 1 {
					f.regs[x] = oc.results[0]
				} else {
					f.regs[x] = Val{Tup: oc.results}
				}
				ex.execInstrs(f, oc.st, blk, i+1, outs)
			}
			return
		default:
			ex.step(fr, st, in)
		}
	}
}

// decide: 1 if c is syntactically known true on this path, -1 if known false, 0 otherwise.
func (ex *Exec) decide(st *State, c string) int {
	nc := not(c)
	for _, a := range st.pc {
		if a == c {
			return 1
		}
		if a == nc {
			return -1
		}
	}
	return 0
}

// feasible asks one solver, briefly, whether the path condition is contradictory.
// Only a definite unsat prunes the path.
func (ex *Exec) feasible(st *State) bool {
	if !ex.prune || (st.depth <= 1 && ex.npaths < 40) {
		return true
	}
	var q strings.Builder
	for _, a := range st.pc {
		q.WriteString("(assert " + a + ")\n")
	}
	qs := addUnfoldings(ex.u.Decls(), q.String())
	var b strings.Builder
	b.WriteString(sliceDecls(ex.u.Decls(), qs))
	b.WriteString(qs)
	ex.nfeas++
	r := quickCheck(b.String(), 2*time.Second)
	if r == "unsat" {
		if d := os.Getenv("GOVC_DUMP_PRUNED"); d != "" {
			os.MkdirAll(d, 0o755)
			os.WriteFile(fmt.Sprintf("%s/pruned_%d.smt2", d, ex.nfeas), []byte("(set-logic ALL)\n"+b.String()+"(check-sat)\n"), 0o644)
		}
	}
	return r != "unsat"
}

func (ex *Exec) pos(in ssa.Instruction) string {
	p := ex.prog.fset.Position(in.Pos())
	if !p.IsValid() {
		return ""
	}
	return fmt.Sprintf("%s:%d", strings.TrimPrefix(p.Filename, repoRoot+"/"), p.Line)
}

func (ex *Exec) seq(key string) int {
	ex.callSeq[key]++
	return ex.callSeq[key]
}

// onPanic: the path panics here.
func (ex *Exec) onPanic(fr *Frame, st *State, what string, in ssa.Instruction) {
	if ex.ct != nil && ex.ct.NoPanic {
		ex.addObl("safe", sanitizeLabel(what), ex.ct.Props, st, "false", ex.pos(in), "nopanic: "+what+" must be unreachable")
	}
}

// mayPanic: the instruction panics unless cond; under nopanic that is an
// obligation, in any case the path continues under cond.
func (ex *Exec) mayPanic(st *State, cond, what string, in ssa.Instruction) {
	if cond == "true" {
		return
	}
	if ex.ct != nil && ex.ct.NoPanic {
		ex.addObl("safe", sanitizeLabel(what), ex.ct.Props, st, cond, ex.pos(in), "nopanic: "+what)
	}
	st.assume(cond)
}

func sanitizeLabel(s string) string {
	return strings.Map(func(r rune) rune {
		if r == ' ' {
			return '-'
		}
		return r
	}, s)
}

// ---------------------------------------------------------------- single instructions

func (ex *Exec) step(fr *Frame, st *State, in ssa.Instruction) {
	u := ex.u
	switch x := in.(type) {
	case *ssa.DebugRef:
		if id, ok := x.Expr.(*ast.Ident); ok && fr.names != nil && id.Name != "_" {
			fr.names[id.Name] = x.X
		}
	case *ssa.Alloc:
		et := x.Type().Underlying().(*types.Pointer).Elem()
		c := ex.newCell(et, x.Comment)
		st.cells[c] = u.Zero(et)
		fr.regs[x] = Val{P: &Ptr{Cell: c, NilT: "false"}}
	case *ssa.Store:
		p := ex.val(fr, st, x.Addr)
		if p.P == nil {
			unsupported("store to non-pointer")
		}
		if p.P.Glob != nil {
			unsupported("store to package-level variable %s", p.P.Glob.Name())
		}
		v := ex.val(fr, st, x.Val)
		if v.P != nil || v.Fn != nil {
			// storing a pointer/closure into memory: keep engine-level by a side table
			ex.storeOpaque(p.P, v, st)
			if v.P != nil && p.P.Cell != nil && !p.P.Unknown {
				// the SMT image of the memory cell records the identity of the object pointed to
				if _, live := st.cells[p.P.Cell]; live && ex.u.SortOf(x.Val.Type()) == "Ref" {
					ex.store(p.P, ex.pure(v, x.Val.Type(), st), st, in.String())
				}
			}
			return
		}
		ex.mayPanic(st, not(p.P.NilT), "nil-dereference", in)
		ex.store(p.P, ex.pure(v, x.Val.Type(), st), st, in.String())
	case *ssa.UnOp:
		ex.unop(fr, st, x)
	case *ssa.BinOp:
		fr.regs[x] = ex.binop(fr, st, x)
	case *ssa.FieldAddr:
		p := ex.val(fr, st, x.X)
		if p.P == nil {
			unsupported("FieldAddr on non-pointer")
		}
		if p.P.Unknown || p.P.Glob != nil {
			fr.regs[x] = Val{P: &Ptr{Unknown: true, NilT: "false"}}
			return
		}
		ex.mayPanic(st, not(p.P.NilT), "nil-dereference", in)
		np := &Ptr{Cell: p.P.Cell, Path: append(append([]PathEl(nil), p.P.Path...), PathEl{Field: x.Field}), NilT: "false"}
		fr.regs[x] = Val{P: np}
	case *ssa.Field:
		s := ex.val(fr, st, x.X)
		if s.Tup != nil {
			unsupported("Field of tuple")
		}
		stt := x.X.Type().Underlying().(*types.Struct)
		sort := u.SortOf(x.X.Type())
		info := u.structs[sort]
		if info == nil {
			// opaque struct (override): unknown field
			ex.havoc("field of opaque " + x.X.Type().String())
			fr.regs[x] = ex.freshVal(stt.Field(x.Field).Type(), "field", st)
			return
		}
		if ov, ok := ex.opaqueField(s, x.Field); ok {
			fr.regs[x] = ov
			return
		}
		fr.regs[x] = Val{T: acc(info, x.Field, s.T)}
	case *ssa.IndexAddr:
		ex.indexAddr(fr, st, x)
	case *ssa.Index:
		a := ex.val(fr, st, x.X)
		idx := ex.term(fr, st, x.Index)
		switch tt := x.X.Type().Underlying().(type) {
		case *types.Array:
			ex.mayPanic(st, fmt.Sprintf("(and (<= 0 %s) (< %s %d))", idx, idx, tt.Len()), "index-out-of-range", in)
			fr.regs[x] = Val{T: fmt.Sprintf("(select %s %s)", a.T, idx)}
		case *types.Basic: // string
			ex.mayPanic(st, fmt.Sprintf("(and (<= 0 %s) (< %s (s.len %s)))", idx, idx, a.T), "index-out-of-range", in)
			fr.regs[x] = Val{T: fmt.Sprintf("(select (sl.arr (s.bytes %s)) %s)", a.T, idx)}
		default:
			unsupported("Index on %s", x.X.Type())
		}
	case *ssa.Slice:
		ex.sliceOp(fr, st, x)
	case *ssa.MakeSlice:
		et := x.Type().Underlying().(*types.Slice).Elem()
		ln := ex.term(fr, st, x.Len)
		cp := ex.term(fr, st, x.Cap)
		ex.mayPanic(st, fmt.Sprintf("(and (<= 0 %s) (<= %s %s))", ln, ln, cp), "makeslice-len", in)
		at := types.NewArray(et, 1<<40)
		c := ex.newCell(at, "make")
		st.cells[c] = u.Zero(at)
		fr.regs[x] = Val{Bk: &Backed{Cell: c, Len: ln, Cap: cp}}
	case *ssa.MakeMap:
		fr.regs[x] = Val{T: u.Zero(x.Type())}
		ex.havoc("map value semantics for " + x.Name())
	case *ssa.MakeInterface:
		fr.regs[x] = ex.makeInterface(fr, st, x)
	case *ssa.MakeClosure:
		var bs []Val
		for _, b := range x.Bindings {
			bs = append(bs, ex.val(fr, st, b))
		}
		fr.regs[x] = Val{Fn: &FnVal{Fn: x.Fn.(*ssa.Function), Bindings: bs}}
	case *ssa.ChangeInterface:
		fr.regs[x] = ex.val(fr, st, x.X)
	case *ssa.ChangeType:
		v := ex.val(fr, st, x.X)
		// sorts of named type and underlying agree except overrides
		if u.SortOf(x.Type()) != u.SortOf(x.X.Type()) && v.P == nil && v.Fn == nil {
			if v.Bk == nil {
				unsupported("ChangeType between sorts %s and %s", u.SortOf(x.X.Type()), u.SortOf(x.Type()))
			}
		}
		fr.regs[x] = v
	case *ssa.Convert:
		fr.regs[x] = ex.convert(fr, st, x)
	case *ssa.Extract:
		t := ex.val(fr, st, x.Tuple)
		if t.Tup == nil || x.Index >= len(t.Tup) {
			unsupported("Extract from non-tuple")
		}
		fr.regs[x] = t.Tup[x.Index]
	case *ssa.TypeAssert:
		ex.typeAssert(fr, st, x)
	case *ssa.Lookup:
		m := ex.val(fr, st, x.X)
		k := ex.term(fr, st, x.Index)
		if _, isMap := x.X.Type().Underlying().(*types.Map); isMap {
			mt := x.X.Type().Underlying().(*types.Map)
			sel := fmt.Sprintf("(select %s %s)", m.T, k)
			present := fmt.Sprintf("((_ is Some) %s)", sel)
			v := fmt.Sprintf("(ite %s (get %s) %s)", present, sel, u.Zero(mt.Elem()))
			if x.CommaOk {
				fr.regs[x] = Val{Tup: []Val{{T: v}, {T: present}}}
			} else {
				fr.regs[x] = Val{T: v}
			}
			return
		}
		ex.mayPanic(st, fmt.Sprintf("(and (<= 0 %s) (< %s (s.len %s)))", k, k, m.T), "index-out-of-range", in)
		fr.regs[x] = Val{T: fmt.Sprintf("(select (sl.arr (s.bytes %s)) %s)", m.T, k)}
	case *ssa.MapUpdate:
		mv := ex.val(fr, st, x.Map)
		k := ex.term(fr, st, x.Key)
		v := ex.term(fr, st, x.Value)
		// maps have reference semantics: rebind every register holding this map value
		nt := fmt.Sprintf("(store %s %s (Some %s))", mv.T, k, v)
		ex.rebindMap(fr, x.Map, nt)
	case *ssa.Defer:
		st.defers = append(st.defers, x)
	case *ssa.RunDefers:
		for i := len(st.defers) - 1; i >= 0; i-- {
			d := st.defers[i]
			ex.deferredCall(fr, st, d)
		}
		st.defers = nil
	case *ssa.Range, *ssa.Next:
		ex.rangeNext(fr, st, in)
	case *ssa.Go:
		unsupported("go statement")
	case *ssa.Select, *ssa.Send, *ssa.MakeChan:
		unsupported("channel operation")
	case *ssa.SliceToArrayPointer:
		unsupported("slice to array pointer")
	case *ssa.MultiConvert:
		unsupported("multiconvert")
	default:
		unsupported("instruction %T", in)
	}
}

func (ex *Exec) rebindMap(fr *Frame, m ssa.Value, nt string) {
	// all registers that alias the map value: follow phi/changetype roots (approximation: same ssa.Value only,
	// plus cells are not searched) - maps created by MakeMap are held in a single register in this code base.
	fr.regs[m] = Val{T: nt}
}

// opaque pointer storage: pointers stored into cells are kept in a side table keyed by cell+path.
type opaqueKey struct {
	c    *Cell
	path string
}

var opaqueStore = map[opaqueKey]Val{}
var opaqueMu sync.Mutex

func pathKey(p []PathEl) string {
	var b strings.Builder
	for _, e := range p {
		if e.IsIdx {
			b.WriteString("[" + e.Idx + "]")
		} else {
			fmt.Fprintf(&b, ".%d", e.Field)
		}
	}
	return b.String()
}

func (ex *Exec) storeOpaque(p *Ptr, v Val, st *State) {
	if p.Cell == nil {
		unsupported("store of pointer through unknown pointer")
	}
	opaqueMu.Lock()
	opaqueStore[opaqueKey{p.Cell, pathKey(p.Path)}] = v
	opaqueMu.Unlock()
}

func (ex *Exec) loadOpaque(p *Ptr) (Val, bool) {
	if p.Cell == nil {
		return Val{}, false
	}
	opaqueMu.Lock()
	v, ok := opaqueStore[opaqueKey{p.Cell, pathKey(p.Path)}]
	opaqueMu.Unlock()
	return v, ok
}

func (ex *Exec) opaqueField(s Val, field int) (Val, bool) {
	return Val{}, false
}

func (ex *Exec) unop(fr *Frame, st *State, x *ssa.UnOp) {
	switch x.Op {
	case token.MUL: // load
		p := ex.val(fr, st, x.X)
		if p.P == nil {
			unsupported("load from non-pointer %s", x.X.Name())
		}
		if p.P.Glob != nil {
			fr.regs[x] = ex.loadGlobal(p.P.Glob, st)
			return
		}
		ex.mayPanic(st, not(p.P.NilT), "nil-dereference", x)
		if ov, ok := ex.loadOpaque(p.P); ok {
			fr.regs[x] = ov
			return
		}
		if _, isPtr := x.Type().Underlying().(*types.Pointer); isPtr {
			fr.regs[x] = Val{P: &Ptr{Unknown: true, NilT: ex.u.Fresh("isnil", "Bool")}}
			return
		}
		if _, isFn := x.Type().Underlying().(*types.Signature); isFn {
			unsupported("load of unknown function value")
		}
		fr.regs[x] = Val{T: ex.load(p.P, st, x.String())}
	case token.NOT:
		fr.regs[x] = Val{T: not(ex.term(fr, st, x.X))}
	case token.SUB:
		v := ex.term(fr, st, x.X)
		fr.regs[x] = Val{T: ex.wrap("(- "+v+")", x.Type())}
	case token.XOR:
		v := ex.term(fr, st, x.X)
		_, _, signed, bits, ok := intRange(x.Type())
		if !ok {
			unsupported("^ on %s", x.Type())
		}
		if signed {
			fr.regs[x] = Val{T: "(- (- " + v + ") 1)"}
		} else {
			fr.regs[x] = Val{T: fmt.Sprintf("(- %s %s)", pow2m1(bits), v)}
		}
	default:
		unsupported("unary %s", x.Op)
	}
}

func pow2m1(bits int) string {
	switch bits {
	case 8:
		return "255"
	case 16:
		return "65535"
	case 32:
		return "4294967295"
	}
	return "18446744073709551615"
}

func pow2(k int64) string {
	r := new(bigInt).Lsh(bigOne, uint(k))
	return r.String()
}

func (ex *Exec) wrap(term string, t types.Type) string {
	_, _, signed, bits, ok := intRange(t)
	if !ok {
		return term
	}
	if isIntLit(term) {
		// literals produced by constants are already in range
		return term
	}
	if signed {
		return fmt.Sprintf("(wraps%d %s)", bits, term)
	}
	return fmt.Sprintf("(wrapu%d %s)", bits, term)
}

func isIntLit(s string) bool {
	if s == "" {
		return false
	}
	for _, c := range s {
		if c < '0' || c > '9' {
			return false
		}
	}
	return true
}

func (ex *Exec) binop(fr *Frame, st *State, x *ssa.BinOp) Val {
	xt := x.X.Type()
	// pointer comparisons
	if _, isPtr := xt.Underlying().(*types.Pointer); isPtr {
		a := ex.val(fr, st, x.X)
		b := ex.val(fr, st, x.Y)
		if a.P == nil || b.P == nil {
			unsupported("pointer comparison of non-pointers")
		}
		var t string
		switch {
		case b.P.NilT == "true":
			t = a.P.NilT
		case a.P.NilT == "true":
			t = b.P.NilT
		default:
			unsupported("pointer equality between two non-nil pointers")
		}
		if x.Op == token.NEQ {
			t = not(t)
		}
		return Val{T: t}
	}
	if _, isSl := xt.Underlying().(*types.Slice); isSl {
		// comparison with nil only
		a := ex.val(fr, st, x.X)
		b := ex.val(fr, st, x.Y)
		var other Val
		if c, ok := x.Y.(*ssa.Const); ok && c.Value == nil {
			other = a
		} else if c, ok := x.X.(*ssa.Const); ok && c.Value == nil {
			other = b
		} else {
			unsupported("slice comparison")
		}
		t := "false"
		if other.Bk == nil {
			t = "(sl.nil " + other.T + ")"
		}
		if x.Op == token.NEQ {
			t = not(t)
		}
		return Val{T: t}
	}
	if _, isSig := xt.Underlying().(*types.Signature); isSig {
		a := ex.val(fr, st, x.X)
		b := ex.val(fr, st, x.Y)
		known := a
		if c, ok := x.X.(*ssa.Const); ok && c.Value == nil {
			known = b
		}
		t := "false"
		if known.Fn == nil {
			t = fmt.Sprintf("(= %s %s)", known.T, ex.u.Const("fn.nil", "Fn"))
		}
		if x.Op == token.NEQ {
			t = not(t)
		}
		return Val{T: t}
	}
	a := ex.term(fr, st, x.X)
	b := ex.term(fr, st, x.Y)
	isStr := false
	if bt, ok := xt.Underlying().(*types.Basic); ok && bt.Info()&types.IsString != 0 {
		isStr = true
	}
	_, _, signed, bits, isInt := intRange(xt)
	if bt, ok := xt.Underlying().(*types.Basic); ok && bt.Info()&types.IsFloat != 0 {
		ex.havoc("floating-point operation " + x.Op.String())
		return ex.freshVal(x.Type(), "float", st)
	}
	switch x.Op {
	case token.EQL:
		return Val{T: fmt.Sprintf("(= %s %s)", a, b)}
	case token.NEQ:
		return Val{T: fmt.Sprintf("(not (= %s %s))", a, b)}
	case token.LSS, token.LEQ, token.GTR, token.GEQ:
		if isStr {
			switch x.Op {
			case token.LSS:
				return Val{T: fmt.Sprintf("(s.lt %s %s)", a, b)}
			case token.GTR:
				return Val{T: fmt.Sprintf("(s.lt %s %s)", b, a)}
			case token.LEQ:
				return Val{T: fmt.Sprintf("(not (s.lt %s %s))", b, a)}
			default:
				return Val{T: fmt.Sprintf("(not (s.lt %s %s))", a, b)}
			}
		}
		op := map[token.Token]string{token.LSS: "<", token.LEQ: "<=", token.GTR: ">", token.GEQ: ">="}[x.Op]
		return Val{T: fmt.Sprintf("(%s %s %s)", op, a, b)}
	case token.ADD:
		if isStr {
			return Val{T: fmt.Sprintf("(s.cat %s %s)", a, b)}
		}
		return Val{T: ex.wrap(fmt.Sprintf("(+ %s %s)", a, b), x.Type())}
	case token.SUB:
		return Val{T: ex.wrap(fmt.Sprintf("(- %s %s)", a, b), x.Type())}
	case token.MUL:
		return Val{T: ex.wrap(fmt.Sprintf("(* %s %s)", a, b), x.Type())}
	case token.QUO, token.REM:
		if !isInt {
			unsupported("division on %s", xt)
		}
		ex.mayPanic(st, fmt.Sprintf("(not (= %s 0))", b), "division-by-zero", x)
		if signed {
			if x.Op == token.QUO {
				return Val{T: ex.wrap(fmt.Sprintf("(tdiv %s %s)", a, b), x.Type())}
			}
			return Val{T: fmt.Sprintf("(tmod %s %s)", a, b)}
		}
		if x.Op == token.QUO {
			return Val{T: fmt.Sprintf("(div %s %s)", a, b)}
		}
		return Val{T: fmt.Sprintf("(mod %s %s)", a, b)}
	case token.SHL, token.SHR:
		c, ok := x.Y.(*ssa.Const)
		if !ok || c.Value == nil {
			// symbolic shift: uninterpreted
			ex.havoc("symbolic shift")
			return ex.freshVal(x.Type(), "shift", st)
		}
		k, _ := constant.Int64Val(constant.ToInt(c.Value))
		if k >= int64(bits) {
			if x.Op == token.SHL || !signed {
				return Val{T: "0"}
			}
			return Val{T: fmt.Sprintf("(ite (< %s 0) (- 1) 0)", a)}
		}
		if x.Op == token.SHL {
			return Val{T: ex.wrap(fmt.Sprintf("(* %s %s)", a, pow2(k)), x.Type())}
		}
		return Val{T: fmt.Sprintf("(div %s %s)", a, pow2(k))}
	case token.AND:
		if isBool(xt) {
			return Val{T: and(a, b)}
		}
		// mask with 2^k-1 constant
		if m, ok := maskConst(x.Y); ok && !signed {
			return Val{T: fmt.Sprintf("(mod %s %s)", a, m)}
		}
		if m, ok := maskConst(x.X); ok && !signed {
			return Val{T: fmt.Sprintf("(mod %s %s)", b, m)}
		}
		return Val{T: fmt.Sprintf("(bitand %s %s)", a, b)}
	case token.OR:
		if isBool(xt) {
			return Val{T: or(a, b)}
		}
		return Val{T: fmt.Sprintf("(bitor %s %s)", a, b)}
	case token.XOR:
		if isBool(xt) {
			return Val{T: fmt.Sprintf("(xor %s %s)", a, b)}
		}
		return Val{T: fmt.Sprintf("(bitxor %s %s)", a, b)}
	case token.AND_NOT:
		ex.havoc("and-not")
		return ex.freshVal(x.Type(), "andnot", st)
	}
	unsupported("binary %s", x.Op)
	return Val{}
}

func isBool(t types.Type) bool {
	b, ok := t.Underlying().(*types.Basic)
	return ok && b.Info()&types.IsBoolean != 0
}

func maskConst(v ssa.Value) (string, bool) {
	c, ok := v.(*ssa.Const)
	if !ok || c.Value == nil || c.Value.Kind() != constant.Int {
		return "", false
	}
	n, ok := new(bigInt).SetString(c.Value.ExactString(), 10)
	if !ok || n.Sign() <= 0 {
		return "", false
	}
	n1 := new(bigInt).Add(n, bigOne)
	// power of two?
	if new(bigInt).And(n1, n).Sign() == 0 {
		return n1.String(), true
	}
	return "", false
}

func (ex *Exec) convert(fr *Frame, st *State, x *ssa.Convert) Val {
	from, to := x.X.Type(), x.Type()
	v := ex.val(fr, st, x.X)
	_, _, _, _, fromInt := intRange(from)
	_, _, _, _, toInt := intRange(to)
	fb, _ := from.Underlying().(*types.Basic)
	tb, _ := to.Underlying().(*types.Basic)
	switch {
	case fromInt && toInt:
		return Val{T: ex.wrapConv(ex.pure(v, from, st), from, to)}
	case fb != nil && fb.Kind() == types.UntypedInt && toInt:
		return Val{T: ex.wrap(v.T, to)}
	case fb != nil && fb.Info()&types.IsString != 0 && isByteSlice(to):
		return Val{T: fmt.Sprintf("(s.bytes %s)", v.T)}
	case tb != nil && tb.Info()&types.IsString != 0 && isByteSlice(from):
		return Val{T: fmt.Sprintf("(s.frombytes %s)", ex.pure(v, from, st))}
	case tb != nil && tb.Info()&types.IsString != 0 && fromInt:
		ex.havoc("string(rune)")
		return ex.freshVal(to, "runestr", st)
	case fb != nil && fb.Info()&types.IsFloat != 0 && toInt:
		// float -> integer: uninterpreted truncation (f2i), wrapped to the target range
		ex.models["float64->integer conversion as uninterpreted f2i (only facts stated in the trusted prelude are known)"] = true
		return Val{T: ex.wrap(fmt.Sprintf("(f2i %s)", v.T), to)}
	case fb != nil && tb != nil && (fb.Info()&types.IsFloat != 0 || tb.Info()&types.IsFloat != 0):
		ex.havoc("floating-point conversion")
		return ex.freshVal(to, "floatconv", st)
	}
	if ex.u.SortOf(from) == ex.u.SortOf(to) {
		return v
	}
	unsupported("conversion %s -> %s", from, to)
	return Val{}
}

func (ex *Exec) wrapConv(term string, from, to types.Type) string {
	flo, fhi, _, fbits, _ := intRange(from)
	_, _, tsigned, tbits, _ := intRange(to)
	_, _, fsigned, _, _ := intRange(from)
	_ = flo
	_ = fhi
	// widening without sign change keeps the value
	if fsigned == tsigned && tbits >= fbits {
		return term
	}
	if !fsigned && tsigned && tbits > fbits {
		return term
	}
	return ex.wrap(term, to)
}

func isByteSlice(t types.Type) bool {
	s, ok := t.Underlying().(*types.Slice)
	if !ok {
		return false
	}
	b, ok := s.Elem().Underlying().(*types.Basic)
	return ok && (b.Kind() == types.Uint8 || b.Kind() == types.Int32)
}

func (ex *Exec) indexAddr(fr *Frame, st *State, x *ssa.IndexAddr) {
	idx := ex.term(fr, st, x.Index)
	base := ex.val(fr, st, x.X)
	switch x.X.Type().Underlying().(type) {
	case *types.Pointer: // pointer to array
		if base.P == nil || base.P.Cell == nil {
			unsupported("IndexAddr through unknown pointer")
		}
		at := x.X.Type().Underlying().(*types.Pointer).Elem().Underlying().(*types.Array)
		ex.mayPanic(st, fmt.Sprintf("(and (<= 0 %s) (< %s %d))", idx, idx, at.Len()), "index-out-of-range", x)
		np := &Ptr{Cell: base.P.Cell, Path: append(append([]PathEl(nil), base.P.Path...), PathEl{IsIdx: true, Idx: idx}), NilT: "false"}
		fr.regs[x] = Val{P: np}
	case *types.Slice:
		if base.Bk != nil {
			ex.mayPanic(st, fmt.Sprintf("(and (<= 0 %s) (< %s %s))", idx, idx, base.Bk.Len), "index-out-of-range", x)
			np := &Ptr{Cell: base.Bk.Cell, Path: append(append([]PathEl(nil), base.Bk.Path...), PathEl{IsIdx: true, Idx: idx}), NilT: "false"}
			fr.regs[x] = Val{P: np}
			return
		}
		// pure slice: materialise into a backed slice bound to this register (reads and writes
		// through this register see the cell; other aliases do not - flagged)
		et := x.X.Type().Underlying().(*types.Slice).Elem()
		ex.mayPanic(st, fmt.Sprintf("(and (<= 0 %s) (< %s (sl.len %s)))", idx, idx, base.T), "index-out-of-range", x)
		at := types.NewArray(et, 1<<40)
		c := ex.newCell(at, "mat."+x.X.Name())
		st.cells[c] = fmt.Sprintf("(sl.arr %s)", base.T)
		bk := &Backed{Cell: c, Len: fmt.Sprintf("(sl.len %s)", base.T), Cap: fmt.Sprintf("(sl.len %s)", base.T), NilT: fmt.Sprintf("(sl.nil %s)", base.T)}
		if _, isParamOrPhi := fr.regs[x.X]; isParamOrPhi {
			fr.regs[x.X] = Val{Bk: bk}
		}
		np := &Ptr{Cell: c, Path: []PathEl{{IsIdx: true, Idx: idx}}, NilT: "false"}
		fr.regs[x] = Val{P: np}
	default:
		unsupported("IndexAddr on %s", x.X.Type())
	}
}

func (ex *Exec) sliceOp(fr *Frame, st *State, x *ssa.Slice) {
	base := ex.val(fr, st, x.X)
	lo := "0"
	if x.Low != nil {
		lo = ex.term(fr, st, x.Low)
	}
	if x.Max != nil {
		unsupported("3-index slice")
	}
	u := ex.u
	switch tt := x.X.Type().Underlying().(type) {
	case *types.Pointer: // *[N]T -> []T
		at := tt.Elem().Underlying().(*types.Array)
		hi := fmt.Sprint(at.Len())
		if x.High != nil {
			hi = ex.term(fr, st, x.High)
		}
		if base.P == nil || base.P.Cell == nil {
			unsupported("slice of unknown array pointer")
		}
		ex.mayPanic(st, fmt.Sprintf("(and (<= 0 %s) (<= %s %s) (<= %s %d))", lo, lo, hi, hi, at.Len()), "slice-bounds", x)
		if lo == "0" {
			fr.regs[x] = Val{Bk: &Backed{Cell: base.P.Cell, Path: base.P.Path, Len: hi, Cap: fmt.Sprint(at.Len())}}
			return
		}
		arr := ex.readPath(st.cells[base.P.Cell], base.P.Cell.typ, base.P.Path)
		fr.regs[x] = ex.subslice(arr, lo, hi, u.SortOf(at.Elem()), st)
	case *types.Slice:
		et := u.SortOf(tt.Elem())
		var arr, ln, cp string
		if base.Bk != nil {
			arr = ex.readPath(st.cells[base.Bk.Cell], base.Bk.Cell.typ, base.Bk.Path)
			ln, cp = base.Bk.Len, base.Bk.Cap
		} else {
			arr = "(sl.arr " + base.T + ")"
			ln = "(sl.len " + base.T + ")"
			cp = ""
		}
		hi := ln
		if x.High != nil {
			hi = ex.term(fr, st, x.High)
		}
		bound := ln
		if cp != "" {
			bound = cp
		}
		if cp == "" && x.High != nil {
			// capacity of a pure slice is unknown: Go allows hi <= cap; we demand hi <= len (stricter, sound for no-panic)
			bound = ln
		}
		ex.mayPanic(st, fmt.Sprintf("(and (<= 0 %s) (<= %s %s) (<= %s %s))", lo, lo, hi, hi, bound), "slice-bounds", x)
		if lo == "0" && base.Bk != nil {
			fr.regs[x] = Val{Bk: &Backed{Cell: base.Bk.Cell, Path: base.Bk.Path, Len: hi, Cap: base.Bk.Cap}}
			return
		}
		if lo == "0" {
			isnil := "false"
			if x.High == nil {
				fr.regs[x] = base
				return
			}
			fr.regs[x] = Val{T: fmt.Sprintf("(mkSlice %s %s %s)", hi, arr, isnil)}
			return
		}
		fr.regs[x] = ex.subslice(arr, lo, hi, et, st)
	case *types.Basic: // string slicing
		hi := "(s.len " + base.T + ")"
		if x.High != nil {
			hi = ex.term(fr, st, x.High)
		}
		ex.mayPanic(st, fmt.Sprintf("(and (<= 0 %s) (<= %s %s) (<= %s (s.len %s)))", lo, lo, hi, hi, base.T), "slice-bounds", x)
		r := u.Fresh("substr", "Str")
		st.assume(fmt.Sprintf("(= (s.len %s) (- %s %s))", r, hi, lo))
		ex.havoc("substring contents")
		fr.regs[x] = Val{T: r}
	default:
		unsupported("slice of %s", x.X.Type())
	}
}

// subslice builds a fresh pure slice equal to arr[lo:hi].
func (ex *Exec) subslice(arr, lo, hi, elemSort string, st *State) Val {
	a := ex.u.Fresh("sub", "(Array Int "+elemSort+")")
	st.assume(fmt.Sprintf("(forall ((i!s Int)) (! (=> (and (<= 0 i!s) (< i!s (- %s %s))) (= (select %s i!s) (select %s (+ %s i!s)))) :pattern ((select %s i!s))))", hi, lo, a, arr, lo, a))
	return Val{T: fmt.Sprintf("(mkSlice (- %s %s) %s false)", hi, lo, a)}
}

func (ex *Exec) makeInterface(fr *Frame, st *State, x *ssa.MakeInterface) Val {
	v := ex.val(fr, st, x.X)
	xt := x.X.Type()
	tag := ex.u.BoxTag(xt)
	if pt, ok := xt.Underlying().(*types.Pointer); ok {
		// box a snapshot of the pointee
		if v.P == nil {
			unsupported("MakeInterface of non-pointer value typed pointer")
		}
		if v.P.NilT == "true" || v.P.Cell == nil {
			b := ex.u.Fresh("boxedptr", "Iface")
			st.assume(fmt.Sprintf("(= (iface.tag %s) %d)", b, tag))
			return Val{T: b}
		}
		content := ex.load(v.P, st, "box")
		return Val{T: ex.u.Box(ex.u.SortOf(pt.Elem()), tag, content)}
	}
	if v.Store != "" || v.Fn != nil {
		return v
	}
	return Val{T: ex.u.Box(ex.u.SortOf(xt), tag, ex.pure(v, xt, st))}
}

func (ex *Exec) typeAssert(fr *Frame, st *State, x *ssa.TypeAssert) {
	v := ex.val(fr, st, x.X)
	at := x.AssertedType
	if _, isIface := at.Underlying().(*types.Interface); isIface {
		// interface-to-interface: succeeds iff the dynamic type implements it; unknown
		ok := ex.u.Fresh("implements", "Bool")
		if v.Store != "" || v.Fn != nil {
			ok = "true"
		}
		if x.CommaOk {
			fr.regs[x] = Val{Tup: []Val{v, {T: ok}}}
		} else {
			ex.mayPanic(st, ok, "type-assertion", x)
			fr.regs[x] = v
		}
		return
	}
	tag := ex.u.BoxTag(at)
	okT := fmt.Sprintf("(= (iface.tag %s) %d)", v.T, tag)
	var res Val
	if pt, isPtr := at.Underlying().(*types.Pointer); isPtr {
		c := ex.newCell(pt.Elem(), "asserted")
		st.cells[c] = ex.u.Unbox(ex.u.SortOf(pt.Elem()), v.T)
		st.assume(implies(okT, ex.u.WellTyped(pt.Elem(), st.cells[c], 0)))
		res = Val{P: &Ptr{Cell: c, NilT: not(okT)}}
	} else {
		t := ex.u.Unbox(ex.u.SortOf(at), v.T)
		st.assume(implies(okT, ex.u.WellTyped(at, t, 0)))
		res = Val{T: t}
	}
	if x.CommaOk {
		fr.regs[x] = Val{Tup: []Val{res, {T: okT}}}
	} else {
		ex.mayPanic(st, okT, "type-assertion", x)
		if res.P != nil {
			res.P.NilT = "false"
		}
		fr.regs[x] = res
	}
}

func (ex *Exec) rangeNext(fr *Frame, st *State, in ssa.Instruction) {
	switch x := in.(type) {
	case *ssa.Range:
		// map/string iteration: iterator state is opaque; Next yields arbitrary present keys
		fr.regs[x] = Val{T: ex.term(fr, st, x.X)}
	case *ssa.Next:
		if x.IsString {
			unsupported("range over string")
		}
		it := ex.val(fr, st, x.Iter)
		rng := x.Iter.(*ssa.Range)
		mt := rng.X.Type().Underlying().(*types.Map)
		ok := ex.u.Fresh("range.ok", "Bool")
		k := ex.freshVal(mt.Key(), "range.key", st)
		sel := fmt.Sprintf("(select %s %s)", it.T, k.T)
		st.assume(implies(ok, fmt.Sprintf("((_ is Some) %s)", sel)))
		ex.havoc("map range: arbitrary order, visited-set not tracked")
		fr.regs[x] = Val{Tup: []Val{{T: ok}, k, {T: fmt.Sprintf("(get %s)", sel)}}}
	}
}

func (ex *Exec) deferredCall(fr *Frame, st *State, d *ssa.Defer) {
	com := d.Common()
	name := ""
	if callee := com.StaticCallee(); callee != nil {
		name = callee.String()
		if callee.Pkg != nil && ex.prog.isRepoPkg(callee.Pkg.Pkg.Path()) {
			unsupported("deferred call of repository function %s", name)
		}
	} else if com.IsInvoke() {
		name = com.Method.FullName()
		if com.Method.Name() == "Close" {
			if v, ok := fr.regs[com.Value]; ok && v.It != 0 && st.iters != nil && st.iters[v.It] != nil {
				st.iters[v.It].Closed = true
			}
		}
	} else {
		unsupported("deferred dynamic call")
	}
	ex.models["defer:"+name+" (effect-free on module state, trusted)"] = true
}
