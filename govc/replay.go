package main

import (
	"bytes"
	"context"
	"encoding/json"
	"fmt"
	"go/types"
	"math/big"
	"os"
	"os/exec"
	"path/filepath"
	"sort"
	"strings"
	"time"

	"golang.org/x/tools/go/ssa"
)

// Replay of solver counterexamples on the real code (pure functions and
// methods on plain values).  The model is searched on the obligation with the
// quantified axioms dropped - it is only a candidate - and counts only if the
// real function, run through `go test -overlay`, panics (safe: obligations)
// or returns values that falsify the clause (post: obligations; the clause
// is evaluated by the solver on the concrete inputs and outputs).

type ReplayResult struct {
	Confirmed bool              `json:"confirmed"`
	Note      string            `json:"note"`
	Inputs    map[string]string `json:"inputs,omitempty"`
	GoArgs    []string          `json:"go_args,omitempty"`
	TestFile  string            `json:"test_source,omitempty"`
	Output    string            `json:"test_output,omitempty"`
	Judge     string            `json:"judgement,omitempty"`
}

type leafReq struct {
	term string
	kind string // int bool strlen sdkint sdkdec time slen snil
	path string
}

type replayCtx struct {
	u       *Univ
	imports map[string]string // path -> alias
	strs    map[string]string // SMT abstract value -> go string
	vals    map[string]string
	nstr    int
	pkg     *types.Package
}

func (rc *replayCtx) qual(p *types.Package) string {
	if p == rc.pkg {
		return ""
	}
	if a, ok := rc.imports[p.Path()]; ok {
		return a
	}
	a := fmt.Sprintf("p%d", len(rc.imports))
	rc.imports[p.Path()] = a
	return a
}

// leaves lists the scalar terms whose model values determine a value of type t held in term.
func (rc *replayCtx) leaves(t types.Type, term string, out *[]leafReq, depth int) bool {
	if depth > 5 {
		return false
	}
	if s, ok := sortOverrides[t.String()]; ok {
		switch s {
		case "SdkInt":
			*out = append(*out, leafReq{term, "sdkint", ""})
			return true
		case "SdkDec":
			*out = append(*out, leafReq{term, "sdkdec", ""})
			return true
		case "Time":
			*out = append(*out, leafReq{term, "time", ""})
			return true
		}
		return false
	}
	switch tt := types.Unalias(t).Underlying().(type) {
	case *types.Basic:
		switch {
		case tt.Info()&types.IsInteger != 0:
			*out = append(*out, leafReq{term, "int", ""})
		case tt.Info()&types.IsBoolean != 0:
			*out = append(*out, leafReq{term, "bool", ""})
		case tt.Info()&types.IsString != 0:
			*out = append(*out, leafReq{"(s.len " + term + ")", "strlen", term})
			*out = append(*out, leafReq{term, "strid", term})
			if _, ok := rc.u.sigs["denomChars"]; ok {
				*out = append(*out, leafReq{"(denomChars " + term + ")", "strdenom", term})
			}
		default:
			return false
		}
		return true
	case *types.Struct:
		info := rc.u.structs[rc.u.SortOf(t)]
		if info == nil {
			return false
		}
		for i, f := range info.Fields {
			if strings.HasPrefix(f.Name, "XXX_") {
				continue
			}
			if !rc.leaves(tt.Field(i).Type(), "("+f.Acc+" "+term+")", out, depth+1) {
				return false
			}
		}
		return true
	case *types.Slice:
		if b, ok := tt.Elem().Underlying().(*types.Basic); ok && b.Info()&types.IsInteger != 0 {
			*out = append(*out, leafReq{"(sl.len " + term + ")", "slen", term})
			*out = append(*out, leafReq{"(sl.nil " + term + ")", "snil", term})
			return true
		}
		return false
	case *types.Pointer:
		return false
	}
	return false
}

func parseSMTInt(s string) (*big.Int, bool) {
	s = strings.TrimSpace(s)
	neg := false
	if strings.HasPrefix(s, "(-") && strings.HasSuffix(s, ")") {
		neg = true
		s = strings.TrimSpace(s[2 : len(s)-1])
	}
	n, ok := new(big.Int).SetString(s, 10)
	if !ok {
		return nil, false
	}
	if neg {
		n.Neg(n)
	}
	return n, true
}

func (rc *replayCtx) goString(id string, n int, wordChars bool) string {
	key := fmt.Sprintf("%s/%d", id, n)
	if !wordChars {
		if s, ok := rc.strs[key]; ok {
			return s
		}
		rc.nstr++
		s := strings.Repeat("!", n)
		rc.strs[key] = s
		return s
	}
	if s, ok := rc.strs[key]; ok {
		return s
	}
	// denominations and monikers: lower-case letters; distinct abstract values get distinct strings
	rc.nstr++
	var b strings.Builder
	for i := 0; i < n; i++ {
		b.WriteByte(byte('a' + (i+rc.nstr)%26))
	}
	if n > 0 {
		// make the tail depend on the ordinal so that different values differ
		s := []byte(b.String())
		s[n-1] = byte('a' + rc.nstr%26)
		rc.strs[key] = string(s)
		return string(s)
	}
	rc.strs[key] = ""
	return ""
}

// goExpr builds a Go expression of type t from the model values.
func (rc *replayCtx) goExpr(t types.Type, term string, elems map[string][]string) (string, bool) {
	q := func(p *types.Package) string { return rc.qual(p) }
	if s, ok := sortOverrides[t.String()]; ok {
		v := rc.vals[term]
		switch s {
		case "SdkInt":
			if v == "nilInt" {
				rc.qualPath("cosmossdk.io/math", "sdkmath")
				return "sdkmath.Int{}", true
			}
			n, ok := parseSMTInt(strings.TrimSuffix(strings.TrimPrefix(v, "(mkInt "), ")"))
			if !ok {
				return "", false
			}
			rc.qualPath("cosmossdk.io/math", "sdkmath")
			return fmt.Sprintf("vInt(%q)", n.String()), true
		case "SdkDec":
			if v == "nilDec" {
				rc.qualPath("cosmossdk.io/math", "sdkmath")
				return "sdkmath.LegacyDec{}", true
			}
			n, ok := parseSMTInt(strings.TrimSuffix(strings.TrimPrefix(v, "(mkDec "), ")"))
			if !ok {
				return "", false
			}
			rc.qualPath("cosmossdk.io/math", "sdkmath")
			return fmt.Sprintf("vDec(%q)", n.String()), true
		case "Time":
			n, ok := parseSMTInt(strings.TrimSuffix(strings.TrimPrefix(v, "(mkTime "), ")"))
			if !ok {
				return "", false
			}
			return fmt.Sprintf("vTime(%q)", n.String()), true
		}
		return "", false
	}
	ts := types.TypeString(t, q)
	switch tt := types.Unalias(t).Underlying().(type) {
	case *types.Basic:
		switch {
		case tt.Info()&types.IsInteger != 0:
			n, ok := parseSMTInt(rc.vals[term])
			if !ok {
				return "", false
			}
			return fmt.Sprintf("%s(%s)", ts, n.String()), true
		case tt.Info()&types.IsBoolean != 0:
			return fmt.Sprintf("%s(%s)", ts, rc.vals[term]), true
		case tt.Info()&types.IsString != 0:
			n, ok := parseSMTInt(rc.vals["(s.len "+term+")"])
			if !ok || n.Sign() < 0 || n.Cmp(big.NewInt(1<<16)) > 0 {
				return "", false
			}
			return fmt.Sprintf("%s(%q)", ts, rc.goString(rc.vals[term], int(n.Int64()), rc.vals["(denomChars "+term+")"] != "false")), true
		}
	case *types.Struct:
		info := rc.u.structs[rc.u.SortOf(t)]
		if info == nil {
			return "", false
		}
		var parts []string
		for i, f := range info.Fields {
			if strings.HasPrefix(f.Name, "XXX_") {
				continue
			}
			if !tt.Field(i).Exported() && tt.Field(i).Pkg() != rc.pkg {
				return "", false
			}
			e, ok := rc.goExpr(tt.Field(i).Type(), "("+f.Acc+" "+term+")", elems)
			if !ok {
				return "", false
			}
			parts = append(parts, f.Name+": "+e)
		}
		return ts + "{" + strings.Join(parts, ", ") + "}", true
	case *types.Slice:
		if rc.vals["(sl.nil "+term+")"] == "true" {
			return ts + "(nil)", true
		}
		es, ok := elems[term]
		if !ok {
			return "", false
		}
		return ts + "{" + strings.Join(es, ", ") + "}", true
	}
	return "", false
}

func (rc *replayCtx) qualPath(path, alias string) {
	rc.imports[path] = alias
}

const replayHelpers = `
func vInt(s string) sdkmath.Int { b, _ := new(big.Int).SetString(s, 10); return sdkmath.NewIntFromBigInt(b) }
func vDec(s string) sdkmath.LegacyDec { b, _ := new(big.Int).SetString(s, 10); return sdkmath.LegacyNewDecFromBigIntWithPrec(b, 18) }
func vTime(s string) time.Time {
	b, _ := new(big.Int).SetString(s, 10)
	sec, ns := new(big.Int).DivMod(b, big.NewInt(1000000000), new(big.Int))
	return time.Unix(sec.Int64(), ns.Int64()).UTC()
}
func vTree(v reflect.Value) interface{} {
	if !v.IsValid() { return map[string]interface{}{"x": "invalid"} }
	switch x := v.Interface().(type) {
	case sdkmath.Int:
		if x.IsNil() { return map[string]interface{}{"bi": nil} }
		return map[string]interface{}{"bi": x.String()}
	case sdkmath.LegacyDec:
		if x.IsNil() { return map[string]interface{}{"bd": nil} }
		return map[string]interface{}{"bd": x.BigInt().String()}
	case time.Time:
		n := new(big.Int).Mul(big.NewInt(x.Unix()), big.NewInt(1000000000))
		n.Add(n, big.NewInt(int64(x.Nanosecond())))
		return map[string]interface{}{"t": n.String()}
	}
	switch v.Kind() {
	case reflect.Int, reflect.Int8, reflect.Int16, reflect.Int32, reflect.Int64:
		return map[string]interface{}{"i": fmt.Sprint(v.Int())}
	case reflect.Uint, reflect.Uint8, reflect.Uint16, reflect.Uint32, reflect.Uint64:
		return map[string]interface{}{"i": fmt.Sprint(v.Uint())}
	case reflect.Bool:
		return map[string]interface{}{"b": v.Bool()}
	case reflect.String:
		return map[string]interface{}{"s": v.String()}
	case reflect.Struct:
		var fs []interface{}
		for i := 0; i < v.NumField(); i++ {
			if v.Type().Field(i).IsExported() { fs = append(fs, vTree(v.Field(i))) } else { fs = append(fs, map[string]interface{}{"x": "unexported"}) }
		}
		return map[string]interface{}{"f": fs}
	case reflect.Slice:
		if v.IsNil() { return map[string]interface{}{"l": nil} }
		var es []interface{}
		for i := 0; i < v.Len(); i++ { es = append(es, vTree(v.Index(i))) }
		if es == nil { es = []interface{}{} }
		return map[string]interface{}{"l": es}
	case reflect.Ptr:
		if v.IsNil() { return map[string]interface{}{"p": nil} }
		return map[string]interface{}{"p": vTree(v.Elem())}
	case reflect.Interface:
		if v.IsNil() { return map[string]interface{}{"e": nil} }
		if e, ok := v.Interface().(error); ok { return map[string]interface{}{"e": e.Error()} }
		return map[string]interface{}{"x": "interface"}
	}
	return map[string]interface{}{"x": v.Kind().String()}
}
`

func tryReplay(cc *checkCtx, fnKey string, o *Obligation) *ReplayResult {
	if fnKey == "" || o == nil || o.Decls == "" {
		return nil
	}
	res := &ReplayResult{}
	fn := cc.prog.FindFunc(fnKey)
	if fn == nil || fn.Pkg == nil {
		res.Note = "function not found"
		return res
	}
	ct := cc.cs.ByKey[fnKey]
	u := newUnivFor(cc.prog, cc.cs)
	rc := &replayCtx{u: u, imports: map[string]string{}, strs: map[string]string{}, vals: map[string]string{}, pkg: fn.Pkg.Pkg}
	// parameter constants are named in.<name>!<n> in declaration order; recover them from the obligation's inputs
	exn := &Exec{prog: cc.prog, u: u, cs: cc.cs, fn: fn, ct: ct}
	names := exn.paramNames(fn, ct)
	var params []struct {
		name string
		typ  types.Type
		term string
	}
	for i, p := range fn.Params {
		n := names[i]
		if n == "" || n == "_" {
			n = fmt.Sprintf("arg%d", i)
		}
		want := "in." + sanitize(n) + "!"
		term := ""
		for _, in := range o.Inputs {
			if strings.HasPrefix(in, want) {
				term = in
				break
			}
		}
		if term == "" {
			res.Note = "parameter " + n + " is not a plain value (pointer or opaque); no replay"
			return res
		}
		u.SortOf(p.Type())
		params = append(params, struct {
			name string
			typ  types.Type
			term string
		}{n, p.Type(), term})
	}
	var reqs []leafReq
	for _, p := range params {
		if !rc.leaves(p.typ, p.term, &reqs, 0) {
			res.Note = "parameter " + p.name + " of type " + p.typ.String() + " cannot be rebuilt from a model; no replay"
			return res
		}
	}
	var terms []string
	for _, r := range reqs {
		terms = append(terms, r.term)
	}
	var wf []string
	for _, r := range reqs {
		if r.kind == "strlen" || r.kind == "slen" {
			wf = append(wf, fmt.Sprintf("(assert (>= %s 0))", r.term))
		}
	}
	relaxed := stripQuantified(o.Decls+o.Query) + strings.Join(wf, "\n") + "\n"
	// candidate model: first from the full query (z3 reports the model it was working on even when the
	// answer is unknown because of the quantified axioms), then from the query without quantified axioms
	r1 := Solve(relaxed, terms, 20*time.Second, false)
	if r1.Status != "sat" {
		r1 = candidateModel(o.Decls+o.Query+strings.Join(wf, "\n")+"\n", terms, 20*time.Second)
		if r1.Values == nil || len(r1.Values) < len(terms) {
			res.Note = "no candidate model (relaxed query: " + r1.Status + ")"
			return res
		}
		relaxed = o.Decls + o.Query + strings.Join(wf, "\n") + "\n"
	}
	for k, v := range r1.Values {
		rc.vals[k] = v
	}
	res.Inputs = r1.Values
	// second phase: slice elements
	elems := map[string][]string{}
	var pin []string
	var elemTerms []string
	elemOwner := map[string]string{}
	for _, r := range reqs {
		switch r.kind {
		case "int", "bool", "sdkint", "sdkdec", "time", "strlen", "slen", "snil":
			pin = append(pin, fmt.Sprintf("(assert (= %s %s))", r.term, rc.vals[r.term]))
		}
		if r.kind == "slen" {
			n, ok := parseSMTInt(rc.vals[r.term])
			if !ok || n.Sign() < 0 || n.Cmp(big.NewInt(4096)) > 0 {
				res.Note = "slice length in the model is not replayable: " + rc.vals[r.term]
				return res
			}
			for i := 0; i < int(n.Int64()); i++ {
				t := fmt.Sprintf("(select (sl.arr %s) %d)", r.path, i)
				elemTerms = append(elemTerms, t)
				elemOwner[t] = r.path
				pin = append(pin, fmt.Sprintf("(assert (and (<= 0 %s) (<= %s 255)))", t, t))
			}
			if n.Sign() == 0 {
				elems[r.path] = []string{}
			}
		}
	}
	if len(elemTerms) > 0 {
		r2 := candidateModel(relaxed+strings.Join(pin, "\n"), elemTerms, 20*time.Second)
		if r2.Values == nil {
			res.Note = "could not pin the model for slice elements"
			return res
		}
		for _, t := range elemTerms {
			n, ok := parseSMTInt(r2.Values[t])
			if !ok {
				res.Note = "slice element without value"
				return res
			}
			elems[elemOwner[t]] = append(elems[elemOwner[t]], n.String())
		}
	}
	var goArgs []string
	for _, p := range params {
		e, ok := rc.goExpr(p.typ, p.term, elems)
		if !ok {
			res.Note = "could not build a Go value for " + p.name
			return res
		}
		goArgs = append(goArgs, e)
	}
	res.GoArgs = goArgs
	// the call expression
	call := ""
	if fn.Signature.Recv() != nil {
		call = "(" + goArgs[0] + ")." + fn.Name() + "(" + strings.Join(goArgs[1:], ", ") + ")"
	} else {
		call = fn.Name() + "(" + strings.Join(goArgs, ", ") + ")"
	}
	nres := fn.Signature.Results().Len()
	var lhs, prints []string
	for i := 0; i < nres; i++ {
		lhs = append(lhs, fmt.Sprintf("r%d", i))
		prints = append(prints, fmt.Sprintf("vTree(reflect.ValueOf(&r%d).Elem())", i))
	}
	var src strings.Builder
	fmt.Fprintf(&src, "package %s\n\nimport (\n\t\"encoding/json\"\n\t\"fmt\"\n\t\"math/big\"\n\t\"reflect\"\n\t\"runtime/debug\"\n\t\"testing\"\n\t\"time\"\n\tsdkmath \"cosmossdk.io/math\"\n", fn.Pkg.Pkg.Name())
	var ips []string
	for p := range rc.imports {
		ips = append(ips, p)
	}
	sort.Strings(ips)
	for _, p := range ips {
		if p == "cosmossdk.io/math" || p == "time" {
			continue
		}
		fmt.Fprintf(&src, "\t%s %q\n", rc.imports[p], p)
	}
	src.WriteString(")\n\nvar _ = time.Now\nvar _ = big.NewInt\nvar _ sdkmath.Int\n")
	src.WriteString(replayHelpers)
	src.WriteString("\nfunc TestVerifReplay(t *testing.T) {\n\tdefer func() {\n\t\tif r := recover(); r != nil {\n\t\t\tfmt.Printf(\"REPLAY-PANIC: %v\\nREPLAY-STACK-BEGIN\\n%s\\nREPLAY-STACK-END\\n\", r, debug.Stack())\n\t\t}\n\t}()\n")
	if nres > 0 {
		fmt.Fprintf(&src, "\t%s := %s\n", strings.Join(lhs, ", "), call)
		fmt.Fprintf(&src, "\tout, _ := json.Marshal([]interface{}{%s})\n\tfmt.Printf(\"REPLAY-RESULT: %%s\\n\", out)\n", strings.Join(prints, ", "))
	} else {
		fmt.Fprintf(&src, "\t%s\n\tfmt.Println(\"REPLAY-RESULT: []\")\n", call)
	}
	src.WriteString("}\n")
	res.TestFile = src.String()
	out, err := runOverlayTest(cc.repo, fn.Pkg.Pkg.Path(), src.String())
	res.Output = trunc(out, 6000)
	if err != nil && !strings.Contains(out, "REPLAY-") {
		res.Note = "replay test did not run: " + err.Error()
		return res
	}
	if strings.Contains(out, "REPLAY-PANIC:") {
		line := out[strings.Index(out, "REPLAY-PANIC:"):]
		line = firstLine(line)
		if o.Kind == "safe" {
			site := o.Where
			if !strings.HasPrefix(site, "/") {
				site = "/" + site
			}
			if o.Where != "" && strings.Contains(out, site) {
				res.Confirmed = true
				res.Judge = "the real function panics on the model's input at " + o.Where + ": " + line
			} else {
				res.Judge = "the real function panics on the candidate input, but not at " + o.Where + " (" + line + "); not counted"
			}
		} else {
			// not counted: the candidate input need not satisfy the preconditions that are stated with abstract
			// predicates (validBech32, validDenom ...), and the violated postcondition itself was not observed
			res.Judge = "the real function panics on the candidate input (" + line + "); the violated clause is a postcondition and was not observed: not counted as a replay"
			res.Confirmed = false
		}
		return res
	}
	if o.Kind == "safe" {
		res.Judge = "the real function does not panic on the candidate input"
		return res
	}
	// post: evaluate the clause on the concrete outputs
	idx := strings.Index(out, "REPLAY-RESULT: ")
	if idx < 0 {
		res.Note = "no result line in replay output"
		return res
	}
	var trees []interface{}
	if err := json.Unmarshal([]byte(firstLine(out[idx+len("REPLAY-RESULT: "):])), &trees); err != nil {
		res.Note = "cannot parse replay result: " + err.Error()
		return res
	}
	judge, confirmed := judgePost(cc, fn, ct, o, params2(params), rc, pin, trees)
	res.Judge = judge
	res.Confirmed = confirmed
	return res
}

type paramT struct {
	name string
	typ  types.Type
	term string
}

func params2(ps []struct {
	name string
	typ  types.Type
	term string
}) []paramT {
	var out []paramT
	for _, p := range ps {
		out = append(out, paramT{p.name, p.typ, p.term})
	}
	return out
}

// treeToSMT converts a replay result tree into an SMT term of the sort of t.
func (rc *replayCtx) treeToSMT(tree interface{}, t types.Type, extra *[]string) (string, bool) {
	m, ok := tree.(map[string]interface{})
	if !ok {
		return "", false
	}
	if s, ok := sortOverrides[t.String()]; ok {
		switch s {
		case "SdkInt":
			v, has := m["bi"]
			if !has {
				return "", false
			}
			if v == nil {
				return "nilInt", true
			}
			return "(mkInt " + smtInt(v.(string)) + ")", true
		case "SdkDec":
			v, has := m["bd"]
			if !has {
				return "", false
			}
			if v == nil {
				return "nilDec", true
			}
			return "(mkDec " + smtInt(v.(string)) + ")", true
		case "Time":
			v, has := m["t"]
			if !has {
				return "", false
			}
			return "(mkTime " + smtInt(v.(string)) + ")", true
		}
		return "", false
	}
	switch tt := types.Unalias(t).Underlying().(type) {
	case *types.Basic:
		switch {
		case tt.Info()&types.IsInteger != 0:
			if v, ok := m["i"].(string); ok {
				return smtInt(v), true
			}
		case tt.Info()&types.IsBoolean != 0:
			if v, ok := m["b"].(bool); ok {
				return fmt.Sprint(v), true
			}
		case tt.Info()&types.IsString != 0:
			if v, ok := m["s"].(string); ok {
				// a string equal to one of the inputs is that input's term
				for key, gs := range rc.strs {
					if gs == v {
						id := key[:strings.LastIndex(key, "/")]
						for term, val := range rc.vals {
							if val == id && !strings.HasPrefix(term, "(s.len") {
								return term, true
							}
						}
					}
				}
				c := rc.u.Fresh("outstr", "Str")
				*extra = append(*extra, fmt.Sprintf("(assert (= (s.len %s) %d))", c, len(v)))
				return c, true
			}
		}
	case *types.Struct:
		fs, ok := m["f"].([]interface{})
		info := rc.u.structs[rc.u.SortOf(t)]
		if !ok || info == nil || len(fs) != len(info.Fields) {
			return "", false
		}
		parts := []string{info.Ctor}
		for i := range info.Fields {
			s, ok := rc.treeToSMT(fs[i], tt.Field(i).Type(), extra)
			if !ok {
				return "", false
			}
			parts = append(parts, s)
		}
		if len(parts) == 1 {
			return info.Ctor, true
		}
		return "(" + strings.Join(parts, " ") + ")", true
	case *types.Interface:
		if v, has := m["e"]; has {
			if v == nil {
				return "iface.nil", true
			}
			c := rc.u.Fresh("outerr", "Iface")
			*extra = append(*extra, fmt.Sprintf("(assert (not (= %s iface.nil)))", c))
			return c, true
		}
	case *types.Slice:
		l, has := m["l"]
		if !has {
			return "", false
		}
		es := rc.u.SortOf(tt.Elem())
		if l == nil {
			return fmt.Sprintf("(mkSlice 0 %s true)", rc.u.Const("zarr."+sanitize(es), "(Array Int "+es+")")), true
		}
		arr := rc.u.Fresh("outarr", "(Array Int "+es+")")
		for i, e := range l.([]interface{}) {
			s, ok := rc.treeToSMT(e, tt.Elem(), extra)
			if !ok {
				return "", false
			}
			*extra = append(*extra, fmt.Sprintf("(assert (= (select %s %d) %s))", arr, i, s))
		}
		return fmt.Sprintf("(mkSlice %d %s false)", len(l.([]interface{})), arr), true
	}
	return "", false
}

func judgePost(cc *checkCtx, fn *ssa.Function, ct *Contract, o *Obligation, params []paramT, rc *replayCtx, pin []string, trees []interface{}) (string, bool) {
	if ct == nil {
		return "no contract", false
	}
	var cl *Clause
	for _, c := range ct.Ensures {
		if strings.HasSuffix(o.Name, "#post:"+c.Label) {
			cl = c
		}
	}
	if cl == nil {
		return "clause not found for " + o.Name, false
	}
	u := rc.u
	env := &Env{u: u, vars: map[string]TV{}, bound: map[string]string{}, lets: map[string]*Expr{}}
	for _, g := range cc.cs.Ghosts {
		for _, gd := range g {
			if u.sortKnown(gd.Sort) {
				env.vars[gd.Name] = TV{u.Const("g0."+gd.Name, gd.Sort), gd.Sort}
			}
		}
	}
	var decl []string
	for _, p := range params {
		s := u.SortOf(p.typ)
		env.vars[p.name] = TV{p.term, s}
		decl = append(decl, fmt.Sprintf("(declare-const %s %s)", p.term, s))
	}
	for _, l := range ct.Lets {
		env.lets[l.Name] = l.E
	}
	env.old = env
	rnames := resultNames(fn.Signature, ct)
	var extra []string
	for i, tr := range trees {
		rt := fn.Signature.Results().At(i).Type()
		s, ok := rc.treeToSMT(tr, rt, &extra)
		if !ok {
			return "result " + rnames[i] + " cannot be expressed as a term", false
		}
		env.vars[rnames[i]] = TV{s, u.SortOf(rt)}
	}
	var pre []string
	for _, rq := range ct.Requires {
		tv, err := env.Translate(rq.E, "Bool")
		if err != nil {
			return "requires: " + err.Error(), false
		}
		pre = append(pre, "(assert "+tv.T+")")
	}
	tv, err := env.Translate(cl.E, "Bool")
	if err != nil {
		return "clause: " + err.Error(), false
	}
	q := u.Decls() + strings.Join(decl, "\n") + "\n" + strings.Join(pin, "\n") + "\n" + strings.Join(extra, "\n") + "\n" + strings.Join(pre, "\n") + "\n(assert " + tv.T + ")\n"
	r := Solve(stripQuantified(q), nil, 20*time.Second, false)
	switch r.Status {
	case "unsat":
		return "the real function's outputs on the model's input falsify the clause (ground check: unsat)", true
	case "sat":
		return "the real function's outputs satisfy the clause on the candidate input; the candidate came from the abstraction", false
	}
	return "ground evaluation of the clause was inconclusive (" + r.Status + " " + firstLine(r.Output) + ")", false
}

// runOverlayTest runs an in-package test injected through -overlay; nothing is written into the repository.
func runOverlayTest(repo, pkgPath, src string) (string, error) {
	dir, err := os.MkdirTemp(scratchDir, "replay")
	if err != nil {
		return "", err
	}
	rel := strings.TrimPrefix(strings.TrimPrefix(pkgPath, repoModule), "/")
	testFile := filepath.Join(dir, "zz_verif_replay_test.go")
	if err := os.WriteFile(testFile, []byte(src), 0o644); err != nil {
		return "", err
	}
	ov := map[string]map[string]string{"Replace": {filepath.Join(repo, rel, "zz_verif_replay_test.go"): testFile}}
	ovData, _ := json.Marshal(ov)
	ovFile := filepath.Join(dir, "overlay.json")
	os.WriteFile(ovFile, ovData, 0o644)
	modDir := filepath.Join(scratchDir, "gomod")
	ctx, cancel := context.WithTimeout(context.Background(), 240*time.Second)
	defer cancel()
	cmd := exec.CommandContext(ctx, "go", "test", "-modfile="+filepath.Join(modDir, "go.mod"), "-mod=mod", "-overlay", ovFile, "-vet=off", "-count=1", "-timeout", "60s", "-run", "^TestVerifReplay$", "-v", "./"+rel)
	cmd.Dir = repo
	cmd.Env = append(os.Environ(), "GOFLAGS=", "GOPROXY=off", "GOSUMDB=off", "GOTOOLCHAIN=local", "GOWORK=off")
	var buf bytes.Buffer
	cmd.Stdout = &buf
	cmd.Stderr = &buf
	err = cmd.Run()
	return buf.String(), err
}

// candidateModel asks z3 for the model it has, accepting sat as well as unknown-with-model.
func candidateModel(query string, terms []string, timeout time.Duration) SolverResult {
	best := SolverResult{Status: "unknown"}
	for _, bin := range []string{"z3-new", "z3"} {
		queryMu.Lock()
		queryCounter++
		id := queryCounter
		queryMu.Unlock()
		path := filepath.Join(scratchDir, fmt.Sprintf("m%d.smt2", id))
		full := "(set-option :produce-models true)\n(set-logic ALL)\n" + query + "\n(check-sat)\n(get-value (" + strings.Join(terms, " ") + "))\n"
		if err := os.WriteFile(path, []byte(full), 0o644); err != nil {
			continue
		}
		ctx, cancel := context.WithTimeout(context.Background(), timeout)
		out, _ := exec.CommandContext(ctx, bin, "-smt2", path).CombinedOutput()
		cancel()
		os.Remove(path)
		o := string(out)
		first := firstLine(o)
		if first == "unsat" {
			return SolverResult{Status: "unsat", Backend: bin}
		}
		if first == "sat" || first == "unknown" {
			vals := parseValues(o)
			if len(vals) >= len(terms) {
				return SolverResult{Status: first, Backend: bin, Values: vals, Output: o}
			}
		}
	}
	return best
}
