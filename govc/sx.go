package main

import (
	"fmt"
	"strings"
)

// Minimal s-expression reader, used to read prelude signatures and solver
// output (get-value answers).

type SX struct {
	Atom string
	List []*SX
	IsL  bool
}

func (s *SX) String() string {
	if !s.IsL {
		return s.Atom
	}
	parts := make([]string, len(s.List))
	for i, c := range s.List {
		parts[i] = c.String()
	}
	return "(" + strings.Join(parts, " ") + ")"
}

func parseSXAll(src string) ([]*SX, error) {
	p := &sxParser{s: src}
	var out []*SX
	for {
		p.skip()
		if p.i >= len(p.s) {
			return out, nil
		}
		x, err := p.parse()
		if err != nil {
			return out, err
		}
		out = append(out, x)
	}
}

type sxParser struct {
	s string
	i int
}

func (p *sxParser) skip() {
	for p.i < len(p.s) {
		c := p.s[p.i]
		if c == ';' {
			for p.i < len(p.s) && p.s[p.i] != '\n' {
				p.i++
			}
		} else if c == ' ' || c == '\n' || c == '\t' || c == '\r' {
			p.i++
		} else {
			return
		}
	}
}

func (p *sxParser) parse() (*SX, error) {
	p.skip()
	if p.i >= len(p.s) {
		return nil, fmt.Errorf("unexpected end of s-expression")
	}
	c := p.s[p.i]
	if c == '(' {
		p.i++
		n := &SX{IsL: true}
		for {
			p.skip()
			if p.i >= len(p.s) {
				return nil, fmt.Errorf("unterminated list")
			}
			if p.s[p.i] == ')' {
				p.i++
				return n, nil
			}
			ch, err := p.parse()
			if err != nil {
				return nil, err
			}
			n.List = append(n.List, ch)
		}
	}
	if c == ')' {
		return nil, fmt.Errorf("unexpected )")
	}
	st := p.i
	if c == '"' {
		p.i++
		for p.i < len(p.s) && p.s[p.i] != '"' {
			p.i++
		}
		p.i++
		return &SX{Atom: p.s[st:p.i]}, nil
	}
	if c == '|' {
		p.i++
		for p.i < len(p.s) && p.s[p.i] != '|' {
			p.i++
		}
		p.i++
		return &SX{Atom: p.s[st:p.i]}, nil
	}
	for p.i < len(p.s) {
		c := p.s[p.i]
		if c == ' ' || c == '\n' || c == '\t' || c == '\r' || c == '(' || c == ')' || c == ';' {
			break
		}
		p.i++
	}
	return &SX{Atom: p.s[st:p.i]}, nil
}
