package main

import (
	"fmt"
	"math/big"
	"strings"
	"unicode"
)

// Contract expression language: parser.

type Expr struct {
	Kind       string // num str id field call index update un bin quant cond
	Tok        string // operator / identifier / literal
	Args       []*Expr
	Vars       []QVar    // quant
	Trig       []*Expr   // quant triggers (all groups, flattened)
	TrigGroups [][]*Expr // one entry per {...} group: alternative patterns
	Pos        int
}

type QVar struct {
	Name string
	Type string
}

func (e *Expr) String() string {
	switch e.Kind {
	case "num", "id":
		return e.Tok
	case "str":
		return fmt.Sprintf("%q", e.Tok)
	case "field":
		return e.Args[0].String() + "." + e.Tok
	case "call":
		var as []string
		for _, a := range e.Args {
			as = append(as, a.String())
		}
		return e.Tok + "(" + strings.Join(as, ", ") + ")"
	case "index":
		return e.Args[0].String() + "[" + e.Args[1].String() + "]"
	case "update":
		return e.Args[0].String() + "[" + e.Args[1].String() + " := " + e.Args[2].String() + "]"
	case "un":
		return e.Tok + e.Args[0].String()
	case "bin":
		return "(" + e.Args[0].String() + " " + e.Tok + " " + e.Args[1].String() + ")"
	case "cond":
		return "(" + e.Args[0].String() + " ? " + e.Args[1].String() + " : " + e.Args[2].String() + ")"
	case "quant":
		var vs []string
		for _, v := range e.Vars {
			vs = append(vs, v.Name+" "+v.Type)
		}
		return "(" + e.Tok + " " + strings.Join(vs, ", ") + " :: " + e.Args[0].String() + ")"
	}
	return "?"
}

type ctoken struct {
	kind string // num id str op eof
	text string
	pos  int
}

func lexExpr(s string) ([]ctoken, error) {
	var toks []ctoken
	i := 0
	for i < len(s) {
		c := s[i]
		switch {
		case c == ' ' || c == '\t' || c == '\n':
			i++
		case unicode.IsDigit(rune(c)):
			j := i
			for j < len(s) && (unicode.IsDigit(rune(s[j])) || s[j] == '_' || s[j] == 'x' || (s[j] >= 'a' && s[j] <= 'f') || (s[j] >= 'A' && s[j] <= 'F')) {
				j++
			}
			toks = append(toks, ctoken{"num", strings.ReplaceAll(s[i:j], "_", ""), i})
			i = j
		case unicode.IsLetter(rune(c)) || c == '_':
			j := i
			for j < len(s) && (unicode.IsLetter(rune(s[j])) || unicode.IsDigit(rune(s[j])) || s[j] == '_') {
				j++
			}
			toks = append(toks, ctoken{"id", s[i:j], i})
			i = j
		case c == '"':
			j := i + 1
			for j < len(s) && s[j] != '"' {
				j++
			}
			if j >= len(s) {
				return nil, fmt.Errorf("unterminated string at %d", i)
			}
			toks = append(toks, ctoken{"str", s[i+1 : j], i})
			i = j + 1
		case c == '`':
			j := i + 1
			for j < len(s) && s[j] != '`' {
				j++
			}
			if j >= len(s) {
				return nil, fmt.Errorf("unterminated raw at %d", i)
			}
			toks = append(toks, ctoken{"raw", s[i+1 : j], i})
			i = j + 1
		default:
			ops := []string{"<==>", "==>", ":=", "::", "==", "!=", "<=", ">=", "&&", "||", "+", "-", "*", "/", "%", "<", ">", "!", "(", ")", "[", "]", ",", ".", "?", ":", "^", "{", "}"}
			found := false
			for _, op := range ops {
				if strings.HasPrefix(s[i:], op) {
					toks = append(toks, ctoken{"op", op, i})
					i += len(op)
					found = true
					break
				}
			}
			if !found {
				return nil, fmt.Errorf("unexpected character %q at %d in %q", c, i, s)
			}
		}
	}
	toks = append(toks, ctoken{"eof", "", len(s)})
	return toks, nil
}

type exprParser struct {
	toks []ctoken
	i    int
	src  string
}

func ParseExpr(s string) (*Expr, error) {
	toks, err := lexExpr(s)
	if err != nil {
		return nil, err
	}
	p := &exprParser{toks: toks, src: s}
	e, err := p.parseExpr(0)
	if err != nil {
		return nil, fmt.Errorf("%v in %q", err, s)
	}
	if p.peek().kind != "eof" {
		return nil, fmt.Errorf("trailing input at %d (%q) in %q", p.peek().pos, p.peek().text, s)
	}
	return e, nil
}

func (p *exprParser) peek() ctoken { return p.toks[p.i] }
func (p *exprParser) next() ctoken { t := p.toks[p.i]; p.i++; return t }
func (p *exprParser) accept(op string) bool {
	if p.peek().kind == "op" && p.peek().text == op {
		p.i++
		return true
	}
	return false
}
func (p *exprParser) expect(op string) error {
	if !p.accept(op) {
		return fmt.Errorf("expected %q at %d, got %q", op, p.peek().pos, p.peek().text)
	}
	return nil
}

var binPrec = map[string]int{
	"<==>": 1, "==>": 2, "||": 3, "&&": 4,
	"==": 5, "!=": 5, "<": 5, "<=": 5, ">": 5, ">=": 5,
	"+": 6, "-": 6, "*": 7, "/": 7, "%": 7, "^": 8,
}

func (p *exprParser) parseExpr(minPrec int) (*Expr, error) {
	lhs, err := p.parseUnary()
	if err != nil {
		return nil, err
	}
	for {
		t := p.peek()
		if t.kind != "op" {
			break
		}
		if t.text == "?" && minPrec <= 0 {
			p.next()
			a, err := p.parseExpr(0)
			if err != nil {
				return nil, err
			}
			if err := p.expect(":"); err != nil {
				return nil, err
			}
			b, err := p.parseExpr(0)
			if err != nil {
				return nil, err
			}
			lhs = &Expr{Kind: "cond", Args: []*Expr{lhs, a, b}}
			continue
		}
		prec, ok := binPrec[t.text]
		if !ok || prec < minPrec {
			break
		}
		p.next()
		nextMin := prec + 1
		if t.text == "==>" || t.text == "^" {
			nextMin = prec // right assoc
		}
		rhs, err := p.parseExpr(nextMin)
		if err != nil {
			return nil, err
		}
		if t.text == "^" {
			// numeric power, constant folded
			if lhs.Kind == "num" && rhs.Kind == "num" {
				a, _ := new(big.Int).SetString(lhs.Tok, 0)
				b, _ := new(big.Int).SetString(rhs.Tok, 0)
				lhs = &Expr{Kind: "num", Tok: new(big.Int).Exp(a, b, nil).String()}
				continue
			}
			return nil, fmt.Errorf("^ needs numeric literals")
		}
		lhs = &Expr{Kind: "bin", Tok: t.text, Args: []*Expr{lhs, rhs}, Pos: t.pos}
	}
	return lhs, nil
}

func (p *exprParser) parseUnary() (*Expr, error) {
	t := p.peek()
	if t.kind == "op" && (t.text == "!" || t.text == "-") {
		p.next()
		e, err := p.parseUnary()
		if err != nil {
			return nil, err
		}
		return &Expr{Kind: "un", Tok: t.text, Args: []*Expr{e}}, nil
	}
	if t.kind == "id" && (t.text == "forall" || t.text == "exists") {
		p.next()
		q := &Expr{Kind: "quant", Tok: t.text}
		for {
			nm := p.next()
			if nm.kind != "id" {
				return nil, fmt.Errorf("quantifier variable expected at %d", nm.pos)
			}
			ty, err := p.parseTypeName()
			if err != nil {
				return nil, err
			}
			q.Vars = append(q.Vars, QVar{nm.text, ty})
			if !p.accept(",") {
				break
			}
		}
		if err := p.expect("::"); err != nil {
			return nil, err
		}
		for p.accept("{") {
			var grp []*Expr
			for {
				tr, err := p.parseExpr(0)
				if err != nil {
					return nil, err
				}
				q.Trig = append(q.Trig, tr)
				grp = append(grp, tr)
				if !p.accept(",") {
					break
				}
			}
			q.TrigGroups = append(q.TrigGroups, grp)
			if err := p.expect("}"); err != nil {
				return nil, err
			}
		}
		body, err := p.parseExpr(0)
		if err != nil {
			return nil, err
		}
		q.Args = []*Expr{body}
		return q, nil
	}
	return p.parsePostfix()
}

func (p *exprParser) parseTypeName() (string, error) {
	t := p.next()
	if t.kind == "raw" {
		return "`" + t.text, nil
	}
	if t.kind == "op" && t.text == "[" {
		if err := p.expect("]"); err != nil {
			return "", err
		}
		inner, err := p.parseTypeName()
		if err != nil {
			return "", err
		}
		return "[]" + inner, nil
	}
	if t.kind != "id" {
		return "", fmt.Errorf("type name expected at %d", t.pos)
	}
	name := t.text
	for p.peek().kind == "op" && p.peek().text == "." {
		p.next()
		n := p.next()
		name += "." + n.text
	}
	return name, nil
}

func (p *exprParser) parsePostfix() (*Expr, error) {
	e, err := p.parsePrimary()
	if err != nil {
		return nil, err
	}
	for {
		if p.accept(".") {
			n := p.next()
			if n.kind != "id" {
				return nil, fmt.Errorf("field name expected at %d", n.pos)
			}
			e = &Expr{Kind: "field", Tok: n.text, Args: []*Expr{e}}
			continue
		}
		if p.accept("[") {
			idx, err := p.parseExpr(0)
			if err != nil {
				return nil, err
			}
			if p.accept(":=") {
				v, err := p.parseExpr(0)
				if err != nil {
					return nil, err
				}
				if err := p.expect("]"); err != nil {
					return nil, err
				}
				e = &Expr{Kind: "update", Args: []*Expr{e, idx, v}}
				continue
			}
			if err := p.expect("]"); err != nil {
				return nil, err
			}
			e = &Expr{Kind: "index", Args: []*Expr{e, idx}}
			continue
		}
		break
	}
	return e, nil
}

func (p *exprParser) parsePrimary() (*Expr, error) {
	t := p.next()
	switch t.kind {
	case "num":
		n, ok := new(big.Int).SetString(t.text, 0)
		if !ok {
			return nil, fmt.Errorf("bad number %q", t.text)
		}
		return &Expr{Kind: "num", Tok: n.String()}, nil
	case "str":
		return &Expr{Kind: "str", Tok: t.text}, nil
	case "raw":
		return &Expr{Kind: "raw", Tok: t.text}, nil
	case "id":
		if p.accept("(") {
			c := &Expr{Kind: "call", Tok: t.text, Pos: t.pos}
			if !p.accept(")") {
				for {
					a, err := p.parseExpr(0)
					if err != nil {
						return nil, err
					}
					c.Args = append(c.Args, a)
					if p.accept(")") {
						break
					}
					if err := p.expect(","); err != nil {
						return nil, err
					}
				}
			}
			return c, nil
		}
		return &Expr{Kind: "id", Tok: t.text, Pos: t.pos}, nil
	case "op":
		if t.text == "(" {
			e, err := p.parseExpr(0)
			if err != nil {
				return nil, err
			}
			if err := p.expect(")"); err != nil {
				return nil, err
			}
			return e, nil
		}
	}
	return nil, fmt.Errorf("unexpected ctoken %q at %d", t.text, t.pos)
}
