package main

import (
	"fmt"
	"os"
	"path/filepath"
	"regexp"
	"sort"
	"strconv"
	"strings"
)

type Clause struct {
	Kind    string // requires ensures invariant panics_unless assume lemma
	Label   string
	Props   []string
	Text    string
	E       *Expr
	Loop    int
	Derived bool // ensures only: proved once from the requires and the other (non-derived) ensures, not against the body
	File    string
	Line    int
}

type LetDef struct {
	Name string
	E    *Expr
}

type Contract struct {
	Key          string
	Pkg          string // package path the contract file belongs to ("" for extern specs)
	Params       []string
	Results      []string
	HasNames     bool
	Requires     []*Clause
	Ensures      []*Clause
	PanicsUnless []*Clause
	Assumes      []*Clause
	Hints        []*Clause
	Abstracts    []*Clause
	AtNext       []*Clause // continuation postconditions: must hold at every call of the parameter `next`
	Invariants   map[int][]*Clause
	InlineInvs   map[string][]*Clause // "Callee.k" -> invariants of loop k of the inlined callee Callee
	LoopModifies map[int][]string
	NoPanic      bool
	NoPanicIf    []*Clause // nopanic_if: the no-panic obligations are required only for entry states satisfying these
	Pure         bool
	Inline       bool
	Trusted      bool
	TrustNote    string
	Extern       bool
	Modifies     []string
	ModifiesPtr  []string // pointer parameters whose pointee may change
	Props        []string
	Lets         []LetDef
	File         string
	Line         int
	Fresh        []string // results that are fresh pointers / values
}

type Lemma struct {
	Name  string
	Props []string
	E     *Expr
	Text  string
	File  string
	Pkg   string
	Steps []LemmaStep
}

// LemmaStep is one line of a lemma script: vars / call / assume / show.
type LemmaStep struct {
	Kind    string // vars call assume show
	Vars    []QVar
	Results []string
	Callee  string
	Args    []*Expr
	E       *Expr
	Text    string
	Line    int
}

type ContractSet struct {
	ByKey    map[string]*Contract
	Suffix   []*Contract // keys starting with '*'
	Lemmas   []*Lemma
	Preludes map[string][]string // pkg ("" = global) -> raw SMT chunks
	Ghosts   map[string][]GhostDecl
	KVStores map[string]KVDecl       // package path -> store declaration
	Globals  map[string][]GlobalFact // package path -> facts about package-level variables
	Impls    map[string]string       // interface type string -> concrete type string
	TypeTags []TypeTagDecl
	Files    []string
	Harmless []string // external functions assumed to neither panic nor touch state (`harmless <name>` in a spec)
}

// TypeTagDecl: `typetag isFoo asFoo *pkg/path.Foo` declares a predicate on interface values (dynamic type is *Foo)
// and the accessor returning the boxed value.
type TypeTagDecl struct {
	Pred, Acc, Type string
	Pkg             string
}

type GlobalFact struct {
	Var  string
	E    *Expr
	Text string
}

type KVDecl struct {
	Ghost    string
	KeyFn    string // key bytes -> abstract key
	PrefixFn string // prefix bytes -> abstract prefix
	InPrefix string // (prefix, key) -> Bool
	KeyLt    string // (key, key) -> Bool : iteration order inside a prefix
	KeySort  string
}

type GhostDecl struct {
	Name string
	Sort string
}

var clauseKw = map[string]bool{
	"func": true, "extern": true, "requires": true, "ensures": true, "nopanic": true, "modifies": true,
	"pure": true, "inline": true, "loop": true, "let": true, "assume": true, "trusted": true, "prelude": true,
	"lemma": true, "panics_unless": true, "props": true, "ghost": true, "end": true, "modifies_ptr": true, "kvstore": true, "hint": true, "nopanic_if": true, "vars": true, "call": true, "show": true, "use": true, "abstracts": true, "global": true, "implements": true, "typetag": true, "at_next": true, "harmless": true,
}

var labelRe = regexp.MustCompile(`^@([A-Za-z0-9_\-]+)\s*`)
var propsRe = regexp.MustCompile(`^\[([A-Z0-9, ]+)\]\s*`)

func NewContractSet() *ContractSet {
	return &ContractSet{ByKey: map[string]*Contract{}, Preludes: map[string][]string{}, Ghosts: map[string][]GhostDecl{}, KVStores: map[string]KVDecl{}, Globals: map[string][]GlobalFact{}, Impls: map[string]string{}}
}

// LoadFile reads one contract file.  pkg is the Go package path for files
// that live in /repo, "" for extern specs.
func (cs *ContractSet) LoadFile(path, pkg string) error {
	data, err := os.ReadFile(path)
	if err != nil {
		return err
	}
	cs.Files = append(cs.Files, path)
	lines := strings.Split(string(data), "\n")
	// gather logical lines: "//@ ..." ; continuation when the text does not
	// start with a keyword.
	type lline struct {
		text string
		line int
	}
	var ll []lline
	inPrelude := false
	var preludeBuf []string
	isSpec := strings.HasSuffix(path, ".spec")
	for i, raw := range lines {
		t := strings.TrimRight(raw, " \t\r")
		var body string
		if isSpec {
			body = t
			if strings.HasPrefix(strings.TrimSpace(body), "#") {
				continue
			}
		} else {
			ts := strings.TrimSpace(t)
			if !strings.HasPrefix(ts, "//@") {
				continue
			}
			body = strings.TrimPrefix(ts, "//@")
		}
		if inPrelude {
			if strings.TrimSpace(body) == "end" {
				inPrelude = false
				cs.Preludes[pkg] = append(cs.Preludes[pkg], strings.Join(preludeBuf, "\n"))
				preludeBuf = nil
				continue
			}
			preludeBuf = append(preludeBuf, body)
			continue
		}
		// strip trailing "// comment"
		if idx := strings.Index(body, " // "); idx >= 0 {
			body = body[:idx]
		}
		tb := strings.TrimSpace(body)
		if tb == "" {
			continue
		}
		if tb == "prelude" {
			inPrelude = true
			continue
		}
		first := strings.Fields(tb)[0]
		first = strings.TrimSuffix(first, ":")
		if clauseKw[first] {
			ll = append(ll, lline{tb, i + 1})
		} else if len(ll) > 0 {
			ll[len(ll)-1].text += " " + tb
		} else {
			return fmt.Errorf("%s:%d: text before any clause", path, i+1)
		}
	}
	var cur *Contract
	var curLemma *Lemma
	for _, l := range ll {
		fields := strings.Fields(l.text)
		kw := strings.TrimSuffix(fields[0], ":")
		rest := strings.TrimSpace(l.text[len(fields[0]):])
		where := fmt.Sprintf("%s:%d", path, l.line)
		switch kw {
		case "func", "extern":
			if kw == "extern" {
				rest = strings.TrimSpace(strings.TrimPrefix(rest, "func"))
			}
			c, err := parseFuncHeader(rest, pkg, kw == "extern")
			if err != nil {
				return fmt.Errorf("%s: %v", where, err)
			}
			c.File, c.Line = path, l.line
			cur = c
			curLemma = nil
			if strings.HasPrefix(c.Key, "*") {
				cs.Suffix = append(cs.Suffix, c)
			} else {
				if _, dup := cs.ByKey[c.Key]; dup {
					return fmt.Errorf("%s: duplicate contract for %s", where, c.Key)
				}
				cs.ByKey[c.Key] = c
			}
		case "harmless":
			// harmless <function name or *suffix>: an external function without contract that may be called from a
			// function under nopanic (presentation code: events, logging, formatting)
			if len(fields) != 2 {
				return fmt.Errorf("%s: harmless <function>", where)
			}
			cs.Harmless = append(cs.Harmless, fields[1])
			cur, curLemma = nil, nil
		case "ghost":
			// ghost name Sort
			if len(fields) < 3 {
				return fmt.Errorf("%s: ghost needs name and sort", where)
			}
			cs.Ghosts[pkg] = append(cs.Ghosts[pkg], GhostDecl{fields[1], strings.TrimSpace(rest[len(fields[1]):])})
		case "global":
			// global VarName abstracts <expr>
			if len(fields) < 4 || fields[2] != "abstracts" {
				return fmt.Errorf("%s: global needs 'Var abstracts expr'", where)
			}
			txt := strings.TrimSpace(rest[strings.Index(rest, "abstracts")+len("abstracts"):])
			e, err := ParseExpr(txt)
			if err != nil {
				return fmt.Errorf("%s: %v", where, err)
			}
			cs.Globals[pkg] = append(cs.Globals[pkg], GlobalFact{Var: fields[1], E: e, Text: txt})
		case "typetag":
			if len(fields) < 4 {
				return fmt.Errorf("%s: typetag needs predicate, accessor and type", where)
			}
			cs.TypeTags = append(cs.TypeTags, TypeTagDecl{Pred: fields[1], Acc: fields[2], Type: fields[3], Pkg: pkg})
		case "implements":
			// implements InterfaceName concrete/type/path.Type
			if len(fields) < 3 {
				return fmt.Errorf("%s: implements needs interface and concrete type", where)
			}
			iface := fields[1]
			if !strings.Contains(iface, "/") {
				iface = pkg + "." + iface
			}
			cs.Impls[iface] = fields[2]
		case "kvstore":
			if len(fields) < 3 {
				return fmt.Errorf("%s: kvstore needs ghost and key function", where)
			}
			kd := KVDecl{Ghost: fields[1], KeyFn: fields[2]}
			if len(fields) >= 7 {
				kd.PrefixFn, kd.InPrefix, kd.KeyLt, kd.KeySort = fields[3], fields[4], fields[5], fields[6]
			}
			cs.KVStores[pkg] = kd
		case "lemma":
			// lemma name [props]: expr
			idx := strings.Index(rest, ":")
			head, body := rest, ""
			if idx >= 0 {
				head = strings.TrimSpace(rest[:idx])
				body = strings.TrimSpace(rest[idx+1:])
			}
			lm := &Lemma{File: path, Pkg: pkg, Text: body}
			hf := strings.Fields(head)
			lm.Name = hf[0]
			if m := propsRe.FindStringSubmatch(strings.TrimSpace(head[len(hf[0]):]) + " "); m != nil {
				lm.Props = splitProps(m[1])
			}
			if body != "" {
				e, err := ParseExpr(body)
				if err != nil {
					return fmt.Errorf("%s: %v", where, err)
				}
				lm.E = e
			}
			cs.Lemmas = append(cs.Lemmas, lm)
			curLemma = lm
			cur = nil
		default:
			if curLemma != nil && (kw == "vars" || kw == "call" || kw == "assume" || kw == "show" || kw == "use") {
				st, err := parseLemmaStep(kw, rest, where)
				if err != nil {
					return err
				}
				st.Line = l.line
				curLemma.Steps = append(curLemma.Steps, *st)
				continue
			}
			if cur == nil {
				return fmt.Errorf("%s: clause %q outside a func", where, kw)
			}
			switch kw {
			case "nopanic":
				cur.NoPanic = true
			case "pure":
				cur.Pure = true
			case "inline":
				cur.Inline = true
			case "trusted":
				cur.Trusted = true
				cur.TrustNote = rest
			case "props":
				cur.Props = append(cur.Props, splitProps(rest)...)
			case "modifies":
				for _, m := range strings.Split(rest, ",") {
					if m = strings.TrimSpace(m); m != "" {
						cur.Modifies = append(cur.Modifies, m)
					}
				}
			case "modifies_ptr":
				for _, m := range strings.Split(rest, ",") {
					if m = strings.TrimSpace(m); m != "" {
						cur.ModifiesPtr = append(cur.ModifiesPtr, m)
					}
				}
			case "let":
				idx := strings.Index(rest, ":=")
				if idx < 0 {
					return fmt.Errorf("%s: let needs :=", where)
				}
				e, err := ParseExpr(strings.TrimSpace(rest[idx+2:]))
				if err != nil {
					return fmt.Errorf("%s: %v", where, err)
				}
				cur.Lets = append(cur.Lets, LetDef{strings.TrimSpace(rest[:idx]), e})
			case "nopanic_if":
				cl, err := parseClause("nopanic_if", rest, where)
				if err != nil {
					return err
				}
				cl.File, cl.Line = path, l.line
				cur.NoPanic = true
				cur.NoPanicIf = append(cur.NoPanicIf, cl)
			case "requires", "ensures", "panics_unless", "assume", "hint", "abstracts", "at_next":
				cl, err := parseClause(kw, rest, where)
				if err != nil {
					return err
				}
				cl.File, cl.Line = path, l.line
				switch kw {
				case "requires":
					cur.Requires = append(cur.Requires, cl)
				case "ensures":
					if cl.Label == "" {
						cl.Label = strconv.Itoa(len(cur.Ensures))
					}
					cur.Ensures = append(cur.Ensures, cl)
				case "panics_unless":
					cur.PanicsUnless = append(cur.PanicsUnless, cl)
				case "assume":
					cur.Assumes = append(cur.Assumes, cl)
				case "abstracts":
					cur.Abstracts = append(cur.Abstracts, cl)
				case "at_next":
					if cl.Label == "" {
						cl.Label = strconv.Itoa(len(cur.AtNext))
					}
					cur.AtNext = append(cur.AtNext, cl)
				case "hint":
					if cl.Label == "" {
						cl.Label = strconv.Itoa(len(cur.Hints))
					}
					cur.Hints = append(cur.Hints, cl)
				}
			case "loop":
				// loop <k>: invariant <expr>   |  loop <k>: modifies a, b
				f2 := strings.Fields(rest)
				if len(f2) < 2 {
					return fmt.Errorf("%s: malformed loop clause", where)
				}
				ordTok := strings.TrimSuffix(f2[0], ":")
				inlineKey := ""
				if dot := strings.LastIndex(ordTok, "."); dot > 0 {
					inlineKey = ordTok
					ordTok = ordTok[dot+1:]
				}
				k, err := strconv.Atoi(ordTok)
				if err != nil {
					return fmt.Errorf("%s: loop ordinal: %v", where, err)
				}
				after := strings.TrimSpace(rest[len(f2[0]):])
				if inlineKey != "" {
					if !strings.HasPrefix(after, "invariant") {
						return fmt.Errorf("%s: loop clause must be an invariant", where)
					}
					cl, err := parseClause("invariant", strings.TrimSpace(strings.TrimPrefix(after, "invariant")), where)
					if err != nil {
						return err
					}
					cl.Loop = k
					cl.File, cl.Line = path, l.line
					if cur.InlineInvs == nil {
						cur.InlineInvs = map[string][]*Clause{}
					}
					if cl.Label == "" {
						cl.Label = strconv.Itoa(len(cur.InlineInvs[inlineKey]))
					}
					cur.InlineInvs[inlineKey] = append(cur.InlineInvs[inlineKey], cl)
					continue
				}
				if strings.HasPrefix(after, "invariant") {
					cl, err := parseClause("invariant", strings.TrimSpace(strings.TrimPrefix(after, "invariant")), where)
					if err != nil {
						return err
					}
					cl.Loop = k
					cl.File, cl.Line = path, l.line
					if cur.Invariants == nil {
						cur.Invariants = map[int][]*Clause{}
					}
					if cl.Label == "" {
						cl.Label = strconv.Itoa(len(cur.Invariants[k]))
					}
					cur.Invariants[k] = append(cur.Invariants[k], cl)
				} else {
					return fmt.Errorf("%s: loop clause must be an invariant", where)
				}
			default:
				return fmt.Errorf("%s: unknown clause %q", where, kw)
			}
		}
	}
	return nil
}

func splitProps(s string) []string {
	var out []string
	for _, p := range strings.FieldsFunc(s, func(r rune) bool { return r == ',' || r == ' ' }) {
		if p != "" {
			out = append(out, p)
		}
	}
	return out
}

func parseClause(kind, rest, where string) (*Clause, error) {
	cl := &Clause{Kind: kind}
	if m := labelRe.FindStringSubmatch(rest); m != nil {
		cl.Label = m[1]
		rest = rest[len(m[0]):]
	}
	if m := propsRe.FindStringSubmatch(rest); m != nil {
		cl.Props = splitProps(m[1])
		rest = rest[len(m[0]):]
	}
	if kind == "ensures" && strings.HasPrefix(rest, "derived ") {
		cl.Derived = true
		rest = strings.TrimSpace(strings.TrimPrefix(rest, "derived "))
	}
	cl.Text = rest
	e, err := ParseExpr(rest)
	if err != nil {
		return nil, fmt.Errorf("%s: %v", where, err)
	}
	cl.E = e
	return cl, nil
}

// parseFuncHeader parses   Name(p, q) (r, s)   |  Recv.Name(...)  |  (*Recv).Name(...) | (full/path.T).M(...)
func parseFuncHeader(s, pkg string, extern bool) (*Contract, error) {
	c := &Contract{Pkg: pkg, Extern: extern}
	s = strings.TrimSpace(s)
	var name string
	if strings.HasPrefix(s, "(") {
		end := strings.Index(s, ")")
		if end < 0 {
			return nil, fmt.Errorf("malformed receiver in %q", s)
		}
		recv := s[1:end]
		rest := s[end+1:]
		if !strings.HasPrefix(rest, ".") {
			return nil, fmt.Errorf("malformed method in %q", s)
		}
		p := strings.Index(rest, "(")
		meth := rest[1:]
		after := ""
		if p >= 0 {
			meth = rest[1:p]
			after = rest[p:]
		}
		if !extern && !strings.Contains(recv, "/") {
			if strings.HasPrefix(recv, "*") {
				recv = "*" + pkg + "." + recv[1:]
			} else {
				recv = pkg + "." + recv
			}
		}
		name = "(" + recv + ")." + strings.TrimSpace(meth)
		s = after
	} else {
		p := strings.Index(s, "(")
		nm := s
		after := ""
		if p >= 0 {
			nm = s[:p]
			after = s[p:]
		}
		nm = strings.TrimSpace(nm)
		if extern || strings.HasPrefix(nm, "*") {
			name = nm
		} else if dot := strings.Index(nm, "."); dot >= 0 && !strings.Contains(nm, "/") {
			// Recv.Method shorthand: value receiver
			name = "(" + pkg + "." + nm[:dot] + ")." + nm[dot+1:]
		} else {
			name = pkg + "." + nm
		}
		s = after
	}
	c.Key = name
	s = strings.TrimSpace(s)
	if strings.HasPrefix(s, "(") {
		end := strings.Index(s, ")")
		if end < 0 {
			return nil, fmt.Errorf("malformed parameter list")
		}
		c.HasNames = true
		for _, p := range strings.Split(s[1:end], ",") {
			if p = strings.TrimSpace(p); p != "" {
				c.Params = append(c.Params, p)
			}
		}
		s = strings.TrimSpace(s[end+1:])
		if strings.HasPrefix(s, "(") {
			end := strings.Index(s, ")")
			if end < 0 {
				return nil, fmt.Errorf("malformed result list")
			}
			for _, p := range strings.Split(s[1:end], ",") {
				if p = strings.TrimSpace(p); p != "" {
					c.Results = append(c.Results, p)
				}
			}
		}
	}
	return c, nil
}

// Lookup finds the contract for an SSA function string.
func (cs *ContractSet) Lookup(fnString string) *Contract {
	if c, ok := cs.ByKey[fnString]; ok {
		return c
	}
	for _, c := range cs.Suffix {
		if strings.HasSuffix(fnString, c.Key[1:]) {
			return c
		}
	}
	return nil
}

// IsHarmless: listed by a `harmless` directive (full name, or suffix after a leading '*').
func (cs *ContractSet) IsHarmless(fnString string) bool {
	for _, h := range cs.Harmless {
		if h == fnString || (strings.HasPrefix(h, "*") && strings.HasSuffix(fnString, h[1:])) {
			return true
		}
		if strings.HasSuffix(h, ".*") { // a whole package: functions and methods of its types
			pk := strings.TrimSuffix(h, "*")
			if strings.HasPrefix(fnString, pk) || strings.HasPrefix(fnString, "("+pk) || strings.HasPrefix(fnString, "(*"+pk) {
				return true
			}
		}
	}
	return false
}

func (c *Contract) HasProp(p string) bool {
	for _, q := range c.Props {
		if q == p {
			return true
		}
	}
	for _, cl := range append(append([]*Clause{}, c.Ensures...), c.AtNext...) {
		for _, q := range cl.Props {
			if q == p {
				return true
			}
		}
	}
	return false
}

func (cs *ContractSet) SortedKeys() []string {
	var ks []string
	for k := range cs.ByKey {
		ks = append(ks, k)
	}
	sort.Strings(ks)
	return ks
}

// FindContractFiles lists zz_contracts_verif.go files under root with their
// package import paths.
func FindContractFiles(root, module string) (map[string]string, error) {
	out := map[string]string{}
	err := filepath.Walk(root, func(p string, info os.FileInfo, err error) error {
		if err != nil {
			return nil
		}
		if info.IsDir() {
			if info.Name() == ".git" || info.Name() == "node_modules" {
				return filepath.SkipDir
			}
			return nil
		}
		if info.Name() == "zz_contracts_verif.go" {
			rel, _ := filepath.Rel(root, filepath.Dir(p))
			pkg := module
			if rel != "." {
				pkg = module + "/" + filepath.ToSlash(rel)
			}
			out[p] = pkg
		}
		return nil
	})
	return out, err
}

func parseLemmaStep(kw, rest, where string) (*LemmaStep, error) {
	st := &LemmaStep{Kind: kw, Text: rest}
	switch kw {
	case "vars":
		for _, part := range strings.Split(rest, ",") {
			f := strings.Fields(part)
			if len(f) != 2 {
				return nil, fmt.Errorf("%s: vars needs 'name Type' pairs", where)
			}
			st.Vars = append(st.Vars, QVar{f[0], f[1]})
		}
	case "assume", "show":
		e, err := ParseExpr(rest)
		if err != nil {
			return nil, fmt.Errorf("%s: %v", where, err)
		}
		st.E = e
	case "use":
		e, err := ParseExpr(rest)
		if err != nil {
			return nil, fmt.Errorf("%s: %v", where, err)
		}
		if e.Kind != "call" {
			return nil, fmt.Errorf("%s: use needs LEMMA(args)", where)
		}
		st.Callee = e.Tok
		st.Args = e.Args
	case "call":
		idx := strings.Index(rest, ":=")
		if idx < 0 {
			return nil, fmt.Errorf("%s: call needs :=", where)
		}
		lhs := strings.Trim(strings.TrimSpace(rest[:idx]), "()")
		for _, r := range strings.Split(lhs, ",") {
			st.Results = append(st.Results, strings.TrimSpace(r))
		}
		e, err := ParseExpr(strings.TrimSpace(rest[idx+2:]))
		if err != nil {
			return nil, fmt.Errorf("%s: %v", where, err)
		}
		if e.Kind != "call" {
			return nil, fmt.Errorf("%s: call needs F(args)", where)
		}
		st.Callee = e.Tok
		st.Args = e.Args
	}
	return st, nil
}

func (cs *ContractSet) LemmaByName(n string) *Lemma {
	for _, l := range cs.Lemmas {
		if l.Name == n {
			return l
		}
	}
	return nil
}
