package main

import (
	"fmt"
	"go/types"
	"strings"

	"golang.org/x/tools/go/ssa"
)

// Engine-level models of external functions that need access to the
// executor (ghost stores, codec, pointers).  Each use is recorded in the
// evidence under assumed_contracts.

type goModel func(ex *Exec, fr *Frame, st *State, com *ssa.CallCommon, args []Val, in ssa.Instruction) ([]Outcome, bool)
type goInvokeModel func(ex *Exec, fr *Frame, st *State, com *ssa.CallCommon, recv Val, args []Val, in ssa.Instruction) ([]Outcome, bool)

var goModels map[string]goModel
var goInvokeModels map[string]goInvokeModel

func one(st *State, v ...Val) []Outcome { return []Outcome{{st: st, results: v}} }

func init() {
	goModels = map[string]goModel{
		"(github.com/cosmos/cosmos-sdk/types.Context).KVStore": modelCtxKVStore,
		"github.com/cosmos/cosmos-sdk/types.UnwrapSDKContext": func(ex *Exec, fr *Frame, st *State, com *ssa.CallCommon, args []Val, in ssa.Instruction) ([]Outcome, bool) {
			return one(st, args[0]), true
		},
		"github.com/cosmos/cosmos-sdk/types.WrapSDKContext": func(ex *Exec, fr *Frame, st *State, com *ssa.CallCommon, args []Val, in ssa.Instruction) ([]Outcome, bool) {
			return one(st, args[0]), true
		},
		"bytes.Equal": func(ex *Exec, fr *Frame, st *State, com *ssa.CallCommon, args []Val, in ssa.Instruction) ([]Outcome, bool) {
			a := ex.pure(args[0], com.Args[0].Type(), st)
			b := ex.pure(args[1], com.Args[1].Type(), st)
			return one(st, Val{T: fmt.Sprintf("(bytes.eq %s %s)", a, b)}), true
		},
		"(github.com/cosmos/cosmos-sdk/types.AccAddress).Equals": func(ex *Exec, fr *Frame, st *State, com *ssa.CallCommon, args []Val, in ssa.Instruction) ([]Outcome, bool) {
			a := ex.pure(args[0], com.Args[0].Type(), st)
			b := ex.u.Unbox("(Slice Int)", args[1].T)
			// dynamic type of the argument must be AccAddress for this model
			tag := ex.u.BoxTag(com.Args[0].Type())
			st.assume(fmt.Sprintf("(= (iface.tag %s) %d)", args[1].T, tag))
			return one(st, Val{T: fmt.Sprintf("(bytes.eq %s %s)", a, b)}), true
		},
	}
	goModels["github.com/cosmos/cosmos-sdk/types.KVStorePrefixIterator"] = func(ex *Exec, fr *Frame, st *State, com *ssa.CallCommon, args []Val, in ssa.Instruction) ([]Outcome, bool) {
		return modelNewIterator(ex, st, com, args, false, 0)
	}
	goModels["github.com/cosmos/cosmos-sdk/types.KVStoreReversePrefixIterator"] = func(ex *Exec, fr *Frame, st *State, com *ssa.CallCommon, args []Val, in ssa.Instruction) ([]Outcome, bool) {
		return modelNewIterator(ex, st, com, args, true, 0)
	}
	goModels["github.com/cosmos/cosmos-sdk/types.KVStorePrefixIteratorPaginated"] = func(ex *Exec, fr *Frame, st *State, com *ssa.CallCommon, args []Val, in ssa.Instruction) ([]Outcome, bool) {
		page := ex.pure(args[2], com.Args[2].Type(), st)
		limit := ex.pure(args[3], com.Args[3].Type(), st)
		if page != "1" || !isIntLit(limit) {
			unsupported("paginated iterator with page %s, limit %s (only page 1 with a constant limit is modelled)", page, limit)
		}
		n := 0
		fmt.Sscan(limit, &n)
		return modelNewIterator(ex, st, com, args, false, n)
	}
	goInvokeModels = map[string]goInvokeModel{
		"Valid":         modelIterValid,
		"Next":          modelIterNext,
		"Key":           modelIterKey,
		"Value":         modelIterValue,
		"Close":         modelIterClose,
		"Get":           modelStoreGet,
		"Has":           modelStoreHas,
		"Set":           modelStoreSet,
		"Delete":        modelStoreDelete,
		"MustMarshal":   modelMarshal,
		"MustUnmarshal": modelUnmarshal,
		"Unmarshal":     modelTryUnmarshal,
	}
}

func modelCtxKVStore(ex *Exec, fr *Frame, st *State, com *ssa.CallCommon, args []Val, in ssa.Instruction) ([]Outcome, bool) {
	// the store is identified by the package whose keeper holds the key
	pkg := ""
	if fr.fn.Pkg != nil {
		pkg = fr.fn.Pkg.Pkg.Path()
	} else if fr.fn.Parent() != nil && fr.fn.Parent().Pkg != nil {
		pkg = fr.fn.Parent().Pkg.Pkg.Path()
	}
	kd, ok := ex.cs.KVStores[pkg]
	if !ok {
		return nil, false
	}
	// the key argument must be the keeper's own storeKey field
	if !isStoreKeyField(com.Args[1]) {
		unsupported("ctx.KVStore called with something other than the keeper's storeKey field")
	}
	return one(st, Val{Store: kd.Ghost}), true
}

func isStoreKeyField(v ssa.Value) bool {
	switch x := v.(type) {
	case *ssa.Field:
		st := x.X.Type().Underlying().(*types.Struct)
		return st.Field(x.Field).Name() == "storeKey"
	case *ssa.UnOp:
		if fa, ok := x.X.(*ssa.FieldAddr); ok {
			st := fa.X.Type().Underlying().(*types.Pointer).Elem().Underlying().(*types.Struct)
			return st.Field(fa.Field).Name() == "storeKey"
		}
	case *ssa.ChangeInterface:
		return isStoreKeyField(x.X)
	case *ssa.MakeInterface:
		return isStoreKeyField(x.X)
	}
	return false
}

func (ex *Exec) kvdecl(ghost string) KVDecl {
	// several packages may declare the same module store (keeper, migrations): take the most complete declaration
	var best *KVDecl
	for _, kd := range ex.cs.KVStores {
		kd := kd
		if kd.Ghost == ghost && (best == nil || (best.PrefixFn == "" && kd.PrefixFn != "")) {
			best = &kd
		}
	}
	if best != nil {
		return *best
	}
	fatalf("no kvstore declaration for %s", ghost)
	return KVDecl{}
}

func (ex *Exec) keyTerm(ghost string, key Val, t types.Type, st *State) string {
	kd := ex.kvdecl(ghost)
	return fmt.Sprintf("(%s %s)", kd.KeyFn, ex.pure(key, t, st))
}

func modelStoreGet(ex *Exec, fr *Frame, st *State, com *ssa.CallCommon, recv Val, args []Val, in ssa.Instruction) ([]Outcome, bool) {
	if recv.Store == "" {
		return nil, false
	}
	k := ex.keyTerm(recv.Store, args[0], com.Args[0].Type(), st)
	return one(st, Val{T: fmt.Sprintf("(select %s %s)", st.ghost[recv.Store], k)}), true
}

func modelStoreHas(ex *Exec, fr *Frame, st *State, com *ssa.CallCommon, recv Val, args []Val, in ssa.Instruction) ([]Outcome, bool) {
	if recv.Store == "" {
		return nil, false
	}
	k := ex.keyTerm(recv.Store, args[0], com.Args[0].Type(), st)
	return one(st, Val{T: fmt.Sprintf("(not (sl.nil (select %s %s)))", st.ghost[recv.Store], k)}), true
}

func modelStoreSet(ex *Exec, fr *Frame, st *State, com *ssa.CallCommon, recv Val, args []Val, in ssa.Instruction) ([]Outcome, bool) {
	if recv.Store == "" {
		return nil, false
	}
	if ex.ct != nil && ex.ct.Pure {
		ex.addObl("frame", "readonly-store-write", ex.ct.Props, st, "false", ex.pos(in), "pure function writes the store")
	}
	ex.noOpenIterator(st, recv.Store, in)
	k := ex.keyTerm(recv.Store, args[0], com.Args[0].Type(), st)
	v := ex.pure(args[1], com.Args[1].Type(), st)
	ex.mayPanic(st, fmt.Sprintf("(not (sl.nil %s))", v), "store-set-nil-value", in)
	st.ghost[recv.Store] = fmt.Sprintf("(store %s %s %s)", st.ghost[recv.Store], k, v)
	st.wrote = true
	return one(st), true
}

func modelStoreDelete(ex *Exec, fr *Frame, st *State, com *ssa.CallCommon, recv Val, args []Val, in ssa.Instruction) ([]Outcome, bool) {
	if recv.Store == "" {
		return nil, false
	}
	if ex.ct != nil && ex.ct.Pure {
		ex.addObl("frame", "readonly-store-write", ex.ct.Props, st, "false", ex.pos(in), "pure function writes the store")
	}
	ex.noOpenIterator(st, recv.Store, in)
	k := ex.keyTerm(recv.Store, args[0], com.Args[0].Type(), st)
	st.ghost[recv.Store] = fmt.Sprintf("(store %s %s nilBytes)", st.ghost[recv.Store], k)
	st.wrote = true
	return one(st), true
}

func isCodec(t types.Type) bool {
	s := t.String()
	return strings.HasSuffix(s, "codec.BinaryCodec") || strings.HasSuffix(s, "codec.Codec") || strings.HasSuffix(s, "codec.ProtoCodecMarshaler")
}

func modelMarshal(ex *Exec, fr *Frame, st *State, com *ssa.CallCommon, recv Val, args []Val, in ssa.Instruction) ([]Outcome, bool) {
	if !isCodec(com.Value.Type()) {
		return nil, false
	}
	mi, ok := com.Args[0].(*ssa.MakeInterface)
	if !ok {
		return nil, false
	}
	p := ex.val(fr, st, mi.X)
	pt, isPtr := mi.X.Type().Underlying().(*types.Pointer)
	if !isPtr || p.P == nil || p.P.Cell == nil {
		return nil, false
	}
	sort := ex.u.SortOf(pt.Elem())
	m, _ := ex.u.MarshalFn(sort)
	content := ex.load(p.P, st, "marshal")
	// gogoproto stdtime fields: marshalling fails (MustMarshal panics) outside years 0001..9999
	if info := ex.u.structs[sort]; info != nil {
		for _, f := range info.Fields {
			if f.Sort == "Time" {
				ex.mayPanic(st, fmt.Sprintf("(validTime (%s %s))", f.Acc, content), "marshal-timestamp-range-"+f.Name, in)
			}
		}
	}
	return one(st, Val{T: fmt.Sprintf("(%s %s)", m, content)}), true
}

func modelUnmarshal(ex *Exec, fr *Frame, st *State, com *ssa.CallCommon, recv Val, args []Val, in ssa.Instruction) ([]Outcome, bool) {
	if !isCodec(com.Value.Type()) {
		return nil, false
	}
	mi, ok := com.Args[1].(*ssa.MakeInterface)
	if !ok {
		return nil, false
	}
	p := ex.val(fr, st, mi.X)
	pt, isPtr := mi.X.Type().Underlying().(*types.Pointer)
	if !isPtr || p.P == nil || p.P.Cell == nil {
		return nil, false
	}
	sort := ex.u.SortOf(pt.Elem())
	_, um := ex.u.MarshalFn(sort)
	bz := ex.pure(args[0], com.Args[0].Type(), st)
	t := fmt.Sprintf("(%s %s)", um, bz)
	st.assume(ex.u.WellTyped(pt.Elem(), t, 0))
	ex.store(p.P, t, st, "unmarshal")
	return one(st), true
}

// ---------------------------------------------------------------- store iterators (assumed semantics)
//
// An iterator created on store S under prefix P visits, in ascending (or descending) key order, exactly
// the keys k with S[k] present and inprefix(P, k).  The position is described by first/next conditions
// over the abstract keys; nothing about the number of elements is assumed.

func (ex *Exec) iterFirst(kd KVDecl, it *IterState, k, v string) []string {
	lt := func(a, b string) string {
		if it.Reverse {
			return fmt.Sprintf("(%s %s %s)", kd.KeyLt, b, a)
		}
		return fmt.Sprintf("(%s %s %s)", kd.KeyLt, a, b)
	}
	present := func(x string) string {
		return fmt.Sprintf("(and (not (sl.nil (select %s %s))) (%s %s %s))", it.Snapshot, x, kd.InPrefix, it.Prefix, x)
	}
	return []string{
		implies(v, present(k)),
		fmt.Sprintf("(forall ((k!i %s)) (! (=> %s (and %s (not %s))) :pattern ((select %s k!i))))", kd.KeySort, present("k!i"), v, lt("k!i", k), it.Snapshot),
	}
}

func (ex *Exec) iterNext(kd KVDecl, it *IterState, k0, k1, v1 string) []string {
	lt := func(a, b string) string {
		if it.Reverse {
			return fmt.Sprintf("(%s %s %s)", kd.KeyLt, b, a)
		}
		return fmt.Sprintf("(%s %s %s)", kd.KeyLt, a, b)
	}
	present := func(x string) string {
		return fmt.Sprintf("(and (not (sl.nil (select %s %s))) (%s %s %s))", it.Snapshot, x, kd.InPrefix, it.Prefix, x)
	}
	return []string{
		implies(v1, and(present(k1), lt(k0, k1))),
		fmt.Sprintf("(forall ((k!i %s)) (! (=> (and %s %s) (and %s (not %s))) :pattern ((select %s k!i))))", kd.KeySort, present("k!i"), lt(k0, "k!i"), v1, lt("k!i", k1), it.Snapshot),
	}
}

func modelNewIterator(ex *Exec, st *State, com *ssa.CallCommon, args []Val, reverse bool, limit int) ([]Outcome, bool) {
	if args[0].Store == "" {
		return nil, false
	}
	kd := ex.kvdecl(args[0].Store)
	if kd.PrefixFn == "" {
		unsupported("store %s has no prefix abstraction (kvstore directive)", kd.Ghost)
	}
	ex.models["store iterator semantics: ascending/descending visit of exactly the present keys under the prefix (cosmos-sdk store), snapshot at creation"] = true
	pfx := fmt.Sprintf("(%s %s)", kd.PrefixFn, ex.pure(args[1], com.Args[1].Type(), st))
	it := &IterState{Store: kd.Ghost, Snapshot: st.ghost[kd.Ghost], Prefix: pfx, Reverse: reverse, Limit: limit, Consumed: 1}
	it.Cur = ex.u.Fresh("it.key", kd.KeySort)
	it.Valid = ex.u.Fresh("it.valid", "Bool")
	for _, f := range ex.iterFirst(kd, it, it.Cur, it.Valid) {
		st.assume(f)
	}
	if st.iters == nil {
		st.iters = map[int]*IterState{}
	}
	id := len(st.iters) + 1
	st.iters[id] = it
	return one(st, Val{It: id}), true
}

func iterOf(st *State, v Val) *IterState {
	if v.It == 0 || st.iters == nil {
		return nil
	}
	return st.iters[v.It]
}

func modelIterValid(ex *Exec, fr *Frame, st *State, com *ssa.CallCommon, recv Val, args []Val, in ssa.Instruction) ([]Outcome, bool) {
	it := iterOf(st, recv)
	if it == nil {
		return nil, false
	}
	return one(st, Val{T: it.Valid}), true
}

func modelIterNext(ex *Exec, fr *Frame, st *State, com *ssa.CallCommon, recv Val, args []Val, in ssa.Instruction) ([]Outcome, bool) {
	it := iterOf(st, recv)
	if it == nil {
		return nil, false
	}
	kd := ex.kvdecl(it.Store)
	ex.mayPanic(st, it.Valid, "iterator-next-when-invalid", in)
	if it.Limit > 0 && it.Consumed >= it.Limit {
		it.Valid = "false"
		return one(st), true
	}
	k1 := ex.u.Fresh("it.key", kd.KeySort)
	v1 := ex.u.Fresh("it.valid", "Bool")
	for _, f := range ex.iterNext(kd, it, it.Cur, k1, v1) {
		st.assume(f)
	}
	it.Cur, it.Valid = k1, v1
	it.Consumed++
	return one(st), true
}

func modelIterKey(ex *Exec, fr *Frame, st *State, com *ssa.CallCommon, recv Val, args []Val, in ssa.Instruction) ([]Outcome, bool) {
	it := iterOf(st, recv)
	if it == nil {
		return nil, false
	}
	kd := ex.kvdecl(it.Store)
	ex.mayPanic(st, it.Valid, "iterator-key-when-invalid", in)
	b := ex.u.Fresh("it.keybytes", "(Slice Int)")
	st.assume(fmt.Sprintf("(= (%s %s) %s)", kd.KeyFn, b, it.Cur))
	st.assume(fmt.Sprintf("(not (sl.nil %s))", b))
	return one(st, Val{T: b}), true
}

func modelIterValue(ex *Exec, fr *Frame, st *State, com *ssa.CallCommon, recv Val, args []Val, in ssa.Instruction) ([]Outcome, bool) {
	it := iterOf(st, recv)
	if it == nil {
		return nil, false
	}
	ex.mayPanic(st, it.Valid, "iterator-value-when-invalid", in)
	return one(st, Val{T: fmt.Sprintf("(select %s %s)", it.Snapshot, it.Cur)}), true
}

func modelIterClose(ex *Exec, fr *Frame, st *State, com *ssa.CallCommon, recv Val, args []Val, in ssa.Instruction) ([]Outcome, bool) {
	it := iterOf(st, recv)
	if it == nil {
		return nil, false
	}
	it.Closed = true
	return one(st, Val{T: "iface.nil"}), true
}

// noOpenIterator: writing to a store while one of its iterators is open is outside the iterator contract.
func (ex *Exec) noOpenIterator(st *State, store string, in ssa.Instruction) {
	for _, it := range st.iters {
		if it.Store == store && !it.Closed {
			ex.addObl("frame", "write-during-iteration", ex.propsOf(), st, "false", ex.pos(in), "store write while an iterator over the same store is open")
		}
	}
}

// codec.Unmarshal (the variant that returns an error): either it fails (the target is then unspecified) or it
// succeeds and the target holds the decoded value - the same decoding function as MustUnmarshal.
func modelTryUnmarshal(ex *Exec, fr *Frame, st *State, com *ssa.CallCommon, recv Val, args []Val, in ssa.Instruction) ([]Outcome, bool) {
	if !isCodec(com.Value.Type()) {
		return nil, false
	}
	mi, ok := com.Args[1].(*ssa.MakeInterface)
	if !ok {
		return nil, false
	}
	p := ex.val(fr, st, mi.X)
	pt, isPtr := mi.X.Type().Underlying().(*types.Pointer)
	if !isPtr || p.P == nil || p.P.Cell == nil {
		return nil, false
	}
	sort := ex.u.SortOf(pt.Elem())
	_, um := ex.u.MarshalFn(sort)
	bz := ex.pure(args[0], com.Args[0].Type(), st)
	// failure
	stF := st.clone()
	errV := ex.u.Fresh("unmarshal.err", "Iface")
	stF.assume(fmt.Sprintf("(not (= %s iface.nil))", errV))
	fv := ex.u.Fresh("unmarshal.partial", sort)
	stF.assume(ex.u.WellTyped(pt.Elem(), fv, 0))
	ex.store(p.P, fv, stF, "unmarshal-failed")
	// success
	t := fmt.Sprintf("(%s %s)", um, bz)
	st.assume(ex.u.WellTyped(pt.Elem(), t, 0))
	ex.store(p.P, t, st, "unmarshal")
	return []Outcome{{st: st, results: []Val{{T: "iface.nil"}}}, {st: stF, results: []Val{{T: errV}}}}, true
}
