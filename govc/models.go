package main

import (
	"fmt"
	"go/types"
	"strings"

	"golang.org/x/tools/go/ssa"
)

// Engine-level models of external functions that need access to the
// executor (ghost stores, codec, pointers).  Each use is recorded in the
// evidence under assumed_contracts.

type goModel func(ex *Exec, fr *Frame, st *State, com *ssa.CallCommon, args []Val, in ssa.Instruction) ([]Outcome, bool)
type goInvokeModel func(ex *Exec, fr *Frame, st *State, com *ssa.CallCommon, recv Val, args []Val, in ssa.Instruction) ([]Outcome, bool)

var goModels map[string]goModel
var goInvokeModels map[string]goInvokeModel

func one(st *State, v ...Val) []Outcome { return []Outcome{{st: st, results: v}} }

func init() {
	goModels = map[string]goModel{
		"(github.com/cosmos/cosmos-sdk/types.Context).KVStore": modelCtxKVStore,
		"github.com/cosmos/cosmos-sdk/types.UnwrapSDKContext": func(ex *Exec, fr *Frame, st *State, com *ssa.CallCommon, args []Val, in ssa.Instruction) ([]Outcome, bool) {
			return one(st, args[0]), true
		},
		"github.com/cosmos/cosmos-sdk/types.WrapSDKContext": func(ex *Exec, fr *Frame, st *State, com *ssa.CallCommon, args []Val, in ssa.Instruction) ([]Outcome, bool) {
			return one(st, args[0]), true
		},
		"bytes.Equal": func(ex *Exec, fr *Frame, st *State, com *ssa.CallCommon, args []Val, in ssa.Instruction) ([]Outcome, bool) {
			a := ex.pure(args[0], com.Args[0].Type(), st)
			b := ex.pure(args[1], com.Args[1].Type(), st)
			return one(st, Val{T: fmt.Sprintf("(bytes.eq %s %s)", a, b)}), true
		},
		"(github.com/cosmos/cosmos-sdk/types.AccAddress).Equals": func(ex *Exec, fr *Frame, st *State, com *ssa.CallCommon, args []Val, in ssa.Instruction) ([]Outcome, bool) {
			a := ex.pure(args[0], com.Args[0].Type(), st)
			b := ex.u.Unbox("(Slice Int)", args[1].T)
			// dynamic type of the argument must be AccAddress for this model
			tag := ex.u.BoxTag(com.Args[0].Type())
			st.assume(fmt.Sprintf("(= (iface.tag %s) %d)", args[1].T, tag))
			return one(st, Val{T: fmt.Sprintf("(bytes.eq %s %s)", a, b)}), true
		},
	}
	goInvokeModels = map[string]goInvokeModel{
		"Get":           modelStoreGet,
		"Has":           modelStoreHas,
		"Set":           modelStoreSet,
		"Delete":        modelStoreDelete,
		"MustMarshal":   modelMarshal,
		"MustUnmarshal": modelUnmarshal,
	}
}

func modelCtxKVStore(ex *Exec, fr *Frame, st *State, com *ssa.CallCommon, args []Val, in ssa.Instruction) ([]Outcome, bool) {
	// the store is identified by the package whose keeper holds the key
	pkg := ""
	if fr.fn.Pkg != nil {
		pkg = fr.fn.Pkg.Pkg.Path()
	} else if fr.fn.Parent() != nil && fr.fn.Parent().Pkg != nil {
		pkg = fr.fn.Parent().Pkg.Pkg.Path()
	}
	kd, ok := ex.cs.KVStores[pkg]
	if !ok {
		return nil, false
	}
	// the key argument must be the keeper's own storeKey field
	if !isStoreKeyField(com.Args[1]) {
		unsupported("ctx.KVStore called with something other than the keeper's storeKey field")
	}
	return one(st, Val{Store: kd.Ghost}), true
}

func isStoreKeyField(v ssa.Value) bool {
	switch x := v.(type) {
	case *ssa.Field:
		st := x.X.Type().Underlying().(*types.Struct)
		return st.Field(x.Field).Name() == "storeKey"
	case *ssa.UnOp:
		if fa, ok := x.X.(*ssa.FieldAddr); ok {
			st := fa.X.Type().Underlying().(*types.Pointer).Elem().Underlying().(*types.Struct)
			return st.Field(fa.Field).Name() == "storeKey"
		}
	case *ssa.ChangeInterface:
		return isStoreKeyField(x.X)
	case *ssa.MakeInterface:
		return isStoreKeyField(x.X)
	}
	return false
}

func (ex *Exec) kvdecl(ghost string) KVDecl {
	for _, kd := range ex.cs.KVStores {
		if kd.Ghost == ghost {
			return kd
		}
	}
	fatalf("no kvstore declaration for %s", ghost)
	return KVDecl{}
}

func (ex *Exec) keyTerm(ghost string, key Val, t types.Type, st *State) string {
	kd := ex.kvdecl(ghost)
	return fmt.Sprintf("(%s %s)", kd.KeyFn, ex.pure(key, t, st))
}

func modelStoreGet(ex *Exec, fr *Frame, st *State, com *ssa.CallCommon, recv Val, args []Val, in ssa.Instruction) ([]Outcome, bool) {
	if recv.Store == "" {
		return nil, false
	}
	k := ex.keyTerm(recv.Store, args[0], com.Args[0].Type(), st)
	return one(st, Val{T: fmt.Sprintf("(select %s %s)", st.ghost[recv.Store], k)}), true
}

func modelStoreHas(ex *Exec, fr *Frame, st *State, com *ssa.CallCommon, recv Val, args []Val, in ssa.Instruction) ([]Outcome, bool) {
	if recv.Store == "" {
		return nil, false
	}
	k := ex.keyTerm(recv.Store, args[0], com.Args[0].Type(), st)
	return one(st, Val{T: fmt.Sprintf("(not (sl.nil (select %s %s)))", st.ghost[recv.Store], k)}), true
}

func modelStoreSet(ex *Exec, fr *Frame, st *State, com *ssa.CallCommon, recv Val, args []Val, in ssa.Instruction) ([]Outcome, bool) {
	if recv.Store == "" {
		return nil, false
	}
	if ex.ct != nil && ex.ct.Pure {
		ex.addObl("frame", "readonly-store-write", ex.ct.Props, st, "false", ex.pos(in), "pure function writes the store")
	}
	k := ex.keyTerm(recv.Store, args[0], com.Args[0].Type(), st)
	v := ex.pure(args[1], com.Args[1].Type(), st)
	ex.mayPanic(st, fmt.Sprintf("(not (sl.nil %s))", v), "store-set-nil-value", in)
	st.ghost[recv.Store] = fmt.Sprintf("(store %s %s %s)", st.ghost[recv.Store], k, v)
	st.wrote = true
	return one(st), true
}

func modelStoreDelete(ex *Exec, fr *Frame, st *State, com *ssa.CallCommon, recv Val, args []Val, in ssa.Instruction) ([]Outcome, bool) {
	if recv.Store == "" {
		return nil, false
	}
	if ex.ct != nil && ex.ct.Pure {
		ex.addObl("frame", "readonly-store-write", ex.ct.Props, st, "false", ex.pos(in), "pure function writes the store")
	}
	k := ex.keyTerm(recv.Store, args[0], com.Args[0].Type(), st)
	st.ghost[recv.Store] = fmt.Sprintf("(store %s %s nilBytes)", st.ghost[recv.Store], k)
	st.wrote = true
	return one(st), true
}

func isCodec(t types.Type) bool {
	s := t.String()
	return strings.HasSuffix(s, "codec.BinaryCodec") || strings.HasSuffix(s, "codec.Codec") || strings.HasSuffix(s, "codec.ProtoCodecMarshaler")
}

func modelMarshal(ex *Exec, fr *Frame, st *State, com *ssa.CallCommon, recv Val, args []Val, in ssa.Instruction) ([]Outcome, bool) {
	if !isCodec(com.Value.Type()) {
		return nil, false
	}
	mi, ok := com.Args[0].(*ssa.MakeInterface)
	if !ok {
		return nil, false
	}
	p := ex.val(fr, st, mi.X)
	pt, isPtr := mi.X.Type().Underlying().(*types.Pointer)
	if !isPtr || p.P == nil || p.P.Cell == nil {
		return nil, false
	}
	sort := ex.u.SortOf(pt.Elem())
	m, _ := ex.u.MarshalFn(sort)
	content := ex.load(p.P, st, "marshal")
	return one(st, Val{T: fmt.Sprintf("(%s %s)", m, content)}), true
}

func modelUnmarshal(ex *Exec, fr *Frame, st *State, com *ssa.CallCommon, recv Val, args []Val, in ssa.Instruction) ([]Outcome, bool) {
	if !isCodec(com.Value.Type()) {
		return nil, false
	}
	mi, ok := com.Args[1].(*ssa.MakeInterface)
	if !ok {
		return nil, false
	}
	p := ex.val(fr, st, mi.X)
	pt, isPtr := mi.X.Type().Underlying().(*types.Pointer)
	if !isPtr || p.P == nil || p.P.Cell == nil {
		return nil, false
	}
	sort := ex.u.SortOf(pt.Elem())
	_, um := ex.u.MarshalFn(sort)
	bz := ex.pure(args[0], com.Args[0].Type(), st)
	t := fmt.Sprintf("(%s %s)", um, bz)
	st.assume(ex.u.WellTyped(pt.Elem(), t, 0))
	ex.store(p.P, t, st, "unmarshal")
	return one(st), true
}
