package main

import (
	"fmt"
	"go/types"
	"strings"
)

// Translation of contract expressions to SMT terms.

type TV struct {
	T string // term
	S string // sort
}

type Env struct {
	u         *Univ
	vars      map[string]TV
	old       *Env
	loopEntry *Env                        // values on entry to the loop whose invariant is being translated (at_loop_entry)
	deref     func(ref string) (TV, bool) // content of the object a pointer term denotes, when the engine knows it
	lets      map[string]*Expr
	bound     map[string]string
	specs     map[string]*SpecFn
}

type SpecFn struct {
	Name   string
	Params []QVar
	Ret    string
	Body   *Expr
}

func (env *Env) child() *Env {
	e := *env
	e.bound = map[string]string{}
	for k, v := range env.bound {
		e.bound[k] = v
	}
	return &e
}

type trErr struct{ msg string }

func trFail(format string, a ...interface{}) {
	panic(trErr{fmt.Sprintf(format, a...)})
}

// Translate returns the SMT term of e; it recovers translation errors.
func (env *Env) Translate(e *Expr, expect string) (tv TV, err error) {
	defer func() {
		if r := recover(); r != nil {
			if te, ok := r.(trErr); ok {
				err = fmt.Errorf("%s (in %s)", te.msg, e.String())
				return
			}
			panic(r)
		}
	}()
	tv = env.tr(e, expect)
	return
}

func (u *Univ) sortFromTypeName(n string) (sort string, lo, hi string) {
	if strings.HasPrefix(n, "`") {
		return n[1:], "", ""
	}
	if strings.HasPrefix(n, "[]") {
		s, _, _ := u.sortFromTypeName(n[2:])
		return "(Slice " + s + ")", "", ""
	}
	switch n {
	case "int", "Int":
		return "Int", "", ""
	case "nat":
		return "Int", "0", ""
	case "uint64", "uint":
		return "Int", "0", "18446744073709551615"
	case "int64":
		return "Int", "(- 9223372036854775808)", "9223372036854775807"
	case "uint32":
		return "Int", "0", "4294967295"
	case "uint8", "byte":
		return "Int", "0", "255"
	case "bool", "Bool":
		return "Bool", "", ""
	case "string", "Str":
		return "Str", "", ""
	case "Bytes", "Addr":
		return "(Slice Int)", "", ""
	case "Time":
		return "Time", "", ""
	case "SdkInt", "SdkDec", "Iface", "Ctx":
		return n, "", ""
	}
	if _, ok := u.structs[n]; ok {
		return n, "", ""
	}
	if _, ok := u.declaredSorts()[n]; ok {
		return n, "", ""
	}
	trFail("unknown type name %q", n)
	return "", "", ""
}

func (u *Univ) declaredSorts() map[string]bool {
	m := map[string]bool{}
	for _, p := range u.prelude {
		xs, _ := parseSXAll(p)
		for _, x := range xs {
			if x.IsL && len(x.List) > 1 {
				switch x.List[0].Atom {
				case "declare-sort", "define-sort":
					m[x.List[1].Atom] = true
				case "declare-datatypes":
					for _, nm := range x.List[1].List {
						m[nm.List[0].Atom] = true
					}
				}
			}
		}
	}
	return m
}

func basicByName(n string) types.Type {
	switch n {
	case "string":
		return types.Typ[types.String]
	case "uint64":
		return types.Typ[types.Uint64]
	case "int64":
		return types.Typ[types.Int64]
	case "bool":
		return types.Typ[types.Bool]
	}
	return types.Typ[types.Invalid]
}

func sliceElem(sort string) (string, bool) {
	if strings.HasPrefix(sort, "(Slice ") && strings.HasSuffix(sort, ")") {
		return sort[7 : len(sort)-1], true
	}
	return "", false
}

func optElem(sort string) (string, bool) {
	if strings.HasPrefix(sort, "(Opt ") && strings.HasSuffix(sort, ")") {
		return sort[5 : len(sort)-1], true
	}
	return "", false
}

// arrayParts splits "(Array K V)".
func arrayParts(sort string) (k, v string, ok bool) {
	if !strings.HasPrefix(sort, "(Array ") {
		return "", "", false
	}
	xs, err := parseSXAll(sort)
	if err != nil || len(xs) != 1 || len(xs[0].List) != 3 {
		return "", "", false
	}
	return xs[0].List[1].String(), xs[0].List[2].String(), true
}

func nilOf(sort string) (string, bool) {
	switch {
	case sort == "Iface":
		return "iface.nil", true
	case sort == "SdkInt":
		return "nilInt", true
	case sort == "SdkDec":
		return "nilDec", true
	case strings.HasPrefix(sort, "(Opt "):
		return "(as None " + sort + ")", true
	}
	return "", false
}

func (env *Env) tr(e *Expr, expect string) TV {
	u := env.u
	switch e.Kind {
	case "num":
		return TV{e.Tok, "Int"}
	case "raw":
		return TV{e.Tok, expect}
	case "str":
		return TV{u.StrLit(e.Tok), "Str"}
	case "id":
		if s, ok := env.bound[e.Tok]; ok {
			return TV{e.Tok, s}
		}
		if l, ok := env.lets[e.Tok]; ok {
			return env.tr(l, expect)
		}
		if v, ok := env.vars[e.Tok]; ok {
			return v
		}
		switch e.Tok {
		case "true", "false":
			return TV{e.Tok, "Bool"}
		case "nil", "None":
			if expect == "" {
				trFail("cannot infer the sort of %s here", e.Tok)
			}
			if n, ok := nilOf(expect); ok {
				return TV{n, expect}
			}
			trFail("no nil for sort %s", expect)
		}
		if sig, ok := u.sigs[e.Tok]; ok && len(sig.Args) == 0 {
			return TV{e.Tok, sig.Ret}
		}
		trFail("unknown identifier %q", e.Tok)
	case "field":
		x := env.tr(e.Args[0], "")
		info := u.structs[x.S]
		if info == nil {
			// Opt auto-unwrap is not done; report
			trFail("field .%s on non-struct sort %s", e.Tok, x.S)
		}
		for i, f := range info.Fields {
			if f.Name == e.Tok {
				// accessor of a constructor term: take the component (keeps pointer identities visible)
				if strings.HasPrefix(x.T, "("+info.Ctor+" ") {
					if parts := splitTop(x.T[len(info.Ctor)+2 : len(x.T)-1]); len(parts) == len(info.Fields) {
						return TV{parts[i], f.Sort}
					}
				}
				return TV{"(" + f.Acc + " " + x.T + ")", f.Sort}
			}
		}
		// embedded struct promotion (one level)
		for _, f := range info.Fields {
			if sub := u.structs[f.Sort]; sub != nil {
				for _, g := range sub.Fields {
					if g.Name == e.Tok {
						return TV{"(" + g.Acc + " (" + f.Acc + " " + x.T + "))", g.Sort}
					}
				}
			}
		}
		trFail("no field %s in %s", e.Tok, x.S)
	case "index":
		x := env.tr(e.Args[0], "")
		if el, ok := sliceElem(x.S); ok {
			i := env.tr(e.Args[1], "Int")
			return TV{"(select (sl.arr " + x.T + ") " + i.T + ")", el}
		}
		if k, v, ok := arrayParts(x.S); ok {
			i := env.tr(e.Args[1], k)
			return TV{"(select " + x.T + " " + i.T + ")", v}
		}
		trFail("index on sort %s", x.S)
	case "update":
		x := env.tr(e.Args[0], expect)
		if k, v, ok := arrayParts(x.S); ok {
			i := env.tr(e.Args[1], k)
			nv := env.tr(e.Args[2], v)
			return TV{"(store " + x.T + " " + i.T + " " + nv.T + ")", x.S}
		}
		trFail("update on sort %s", x.S)
	case "un":
		if e.Tok == "!" {
			x := env.tr(e.Args[0], "Bool")
			return TV{not(x.T), "Bool"}
		}
		x := env.tr(e.Args[0], "Int")
		return TV{"(- " + x.T + ")", "Int"}
	case "cond":
		c := env.tr(e.Args[0], "Bool")
		a := env.tr(e.Args[1], expect)
		b := env.tr(e.Args[2], a.S)
		return TV{"(ite " + c.T + " " + a.T + " " + b.T + ")", a.S}
	case "bin":
		return env.trBin(e, expect)
	case "quant":
		ce := env.child()
		var decls, guards []string
		for _, v := range e.Vars {
			s, lo, hi := u.sortFromTypeName(v.Type)
			ce.bound[v.Name] = s
			decls = append(decls, "("+v.Name+" "+s+")")
			if lo != "" {
				guards = append(guards, "(<= "+lo+" "+v.Name+")")
			}
			if hi != "" {
				guards = append(guards, "(<= "+v.Name+" "+hi+")")
			}
		}
		body := ce.tr(e.Args[0], "Bool")
		b := body.T
		if e.Tok == "forall" {
			b = implies(and(guards...), b)
		} else {
			b = and(append(guards, b)...)
		}
		if len(e.TrigGroups) > 0 {
			pats := ""
			for _, grp := range e.TrigGroups {
				var ts []string
				for _, t := range grp {
					tt := ce.tr(t, "")
					ts = append(ts, tt.T)
				}
				pats += " :pattern (" + strings.Join(ts, " ") + ")"
			}
			b = "(! " + b + pats + ")"
		} else if len(e.Trig) > 0 {
			var ts []string
			for _, t := range e.Trig {
				tt := ce.tr(t, "")
				ts = append(ts, tt.T)
			}
			b = "(! " + b + " :pattern (" + strings.Join(ts, " ") + "))"
		}
		return TV{"(" + e.Tok + " (" + strings.Join(decls, " ") + ") " + b + ")", "Bool"}
	case "call":
		return env.trCall(e, expect)
	}
	trFail("cannot translate %s", e.Kind)
	return TV{}
}

func (env *Env) trBin(e *Expr, expect string) TV {
	op := e.Tok
	switch op {
	case "&&", "||", "==>", "<==>":
		a := env.tr(e.Args[0], "Bool")
		b := env.tr(e.Args[1], "Bool")
		if a.S != "Bool" || b.S != "Bool" {
			trFail("boolean operator %s on %s, %s", op, a.S, b.S)
		}
		switch op {
		case "&&":
			return TV{and(a.T, b.T), "Bool"}
		case "||":
			return TV{or(a.T, b.T), "Bool"}
		case "==>":
			return TV{implies(a.T, b.T), "Bool"}
		default:
			return TV{"(= " + a.T + " " + b.T + ")", "Bool"}
		}
	case "==", "!=":
		var a, b TV
		if isNilLit(e.Args[0]) {
			b = env.tr(e.Args[1], "")
			a = env.trNil(b)
			if a.S == "Bool" { // slice nil test
				if op == "!=" {
					return TV{not(a.T), "Bool"}
				}
				return a
			}
		} else {
			a = env.tr(e.Args[0], "")
			if isNilLit(e.Args[1]) {
				b = env.trNil(a)
				if b.S == "Bool" {
					if op == "!=" {
						return TV{not(b.T), "Bool"}
					}
					return b
				}
			} else {
				b = env.tr(e.Args[1], a.S)
			}
		}
		if a.S != b.S {
			trFail("comparison of different sorts %s and %s", a.S, b.S)
		}
		t := "(= " + a.T + " " + b.T + ")"
		if op == "!=" {
			t = not(t)
		}
		return TV{t, "Bool"}
	case "<", "<=", ">", ">=":
		a := env.tr(e.Args[0], "Int")
		b := env.tr(e.Args[1], "Int")
		if a.S != "Int" || b.S != "Int" {
			trFail("ordering on sorts %s, %s", a.S, b.S)
		}
		return TV{"(" + op + " " + a.T + " " + b.T + ")", "Bool"}
	case "+", "-", "*", "/", "%":
		a := env.tr(e.Args[0], "Int")
		b := env.tr(e.Args[1], "Int")
		if a.S != "Int" || b.S != "Int" {
			trFail("arithmetic on sorts %s, %s", a.S, b.S)
		}
		smt := map[string]string{"+": "+", "-": "-", "*": "*", "/": "div", "%": "mod"}[op]
		return TV{"(" + smt + " " + a.T + " " + b.T + ")", "Int"}
	}
	trFail("unknown operator %s", op)
	return TV{}
}

func isNilLit(e *Expr) bool {
	return e.Kind == "id" && (e.Tok == "nil" || e.Tok == "None")
}

// trNil gives the nil of the sort of other; for slices it returns the nil
// test itself with sort Bool.
func (env *Env) trNil(other TV) TV {
	if _, ok := sliceElem(other.S); ok {
		return TV{"(sl.nil " + other.T + ")", "Bool"}
	}
	if n, ok := nilOf(other.S); ok {
		return TV{n, other.S}
	}
	trFail("no nil for sort %s", other.S)
	return TV{}
}

func (env *Env) trCall(e *Expr, expect string) TV {
	u := env.u
	name := e.Tok
	switch name {
	case "old":
		if env.old == nil {
			trFail("old() not available here")
		}
		oe := *env.old
		oe.bound = env.bound
		oe.lets = env.lets
		oe.specs = env.specs
		return oe.tr(e.Args[0], expect)
	case "deref":
		// the object a pointer-valued field or result points to (only where the engine tracks the object)
		x := env.tr(e.Args[0], "Ref")
		if env.deref != nil {
			if v, ok := env.deref(x.T); ok {
				return v
			}
		}
		if expect != "" {
			// not tracked on this path (e.g. a nil result on an error return): an unconstrained value, about which nothing can be proved
			return TV{env.u.Fresh("deref.unknown", expect), expect}
		}
		trFail("deref: the object behind %s is not tracked (write the comparison with deref(...) on the right-hand side)", x.T)
	case "at_loop_entry":
		if env.loopEntry == nil {
			trFail("at_loop_entry() is only available in loop invariants")
		}
		le := *env.loopEntry
		le.bound = env.bound
		le.lets = env.lets
		le.specs = env.specs
		return le.tr(e.Args[0], expect)
	case "len":
		x := env.tr(e.Args[0], "")
		if _, ok := sliceElem(x.S); ok {
			return TV{"(sl.len " + x.T + ")", "Int"}
		}
		if x.S == "Str" {
			return TV{"(s.len " + x.T + ")", "Int"}
		}
		trFail("len of sort %s", x.S)
	case "min", "max", "abs":
		var as []string
		for _, a := range e.Args {
			as = append(as, env.tr(a, "Int").T)
		}
		return TV{"(i" + name + " " + strings.Join(as, " ") + ")", "Int"}
	case "Some":
		el := ""
		if o, ok := optElem(expect); ok {
			el = o
		}
		x := env.tr(e.Args[0], el)
		return TV{"(Some " + x.T + ")", "(Opt " + x.S + ")"}
	case "isSome", "isNone":
		x := env.tr(e.Args[0], "")
		if _, ok := optElem(x.S); !ok {
			trFail("%s on sort %s", name, x.S)
		}
		if name == "isSome" {
			return TV{"((_ is Some) " + x.T + ")", "Bool"}
		}
		return TV{"((_ is None) " + x.T + ")", "Bool"}
	case "get":
		x := env.tr(e.Args[0], "")
		el, ok := optElem(x.S)
		if !ok {
			trFail("get on sort %s", x.S)
		}
		return TV{"(get " + x.T + ")", el}
	case "isnil":
		x := env.tr(e.Args[0], "")
		n := env.trNil(x)
		if n.S == "Bool" {
			return n
		}
		return TV{"(= " + x.T + " " + n.T + ")", "Bool"}
	case "ite":
		c := env.tr(e.Args[0], "Bool")
		a := env.tr(e.Args[1], expect)
		b := env.tr(e.Args[2], a.S)
		return TV{"(ite " + c.T + " " + a.T + " " + b.T + ")", a.S}
	case "slice": // slice(len, arr)
		l := env.tr(e.Args[0], "Int")
		a := env.tr(e.Args[1], "")
		_, v, ok := arrayParts(a.S)
		if !ok {
			trFail("slice() needs an array")
		}
		return TV{"(mkSlice " + l.T + " " + a.T + " false)", "(Slice " + v + ")"}
	case "arr":
		x := env.tr(e.Args[0], "")
		el, ok := sliceElem(x.S)
		if !ok {
			trFail("arr() of %s", x.S)
		}
		return TV{"(sl.arr " + x.T + ")", "(Array Int " + el + ")"}
	case "ptrnil":
		if len(e.Args) != 1 || e.Args[0].Kind != "id" {
			trFail("ptrnil needs a pointer parameter or result name")
		}
		v, ok := env.vars[e.Args[0].Tok+"$isnil"]
		if !ok {
			trFail("%s is not a pointer parameter or result", e.Args[0].Tok)
		}
		return v
	case "ref":
		// identity of the object a pointer parameter points to
		if len(e.Args) != 1 || e.Args[0].Kind != "id" {
			trFail("ref needs a pointer parameter name")
		}
		v, ok := env.vars[e.Args[0].Tok+"$ref"]
		if !ok {
			trFail("%s is not a pointer parameter", e.Args[0].Tok)
		}
		return v
	case "is_string", "is_uint64", "is_int64", "is_bool":
		x := env.tr(e.Args[0], "Iface")
		return TV{fmt.Sprintf("(= (iface.tag %s) %d)", x.T, u.BoxTag(basicByName(name[3:]))), "Bool"}
	case "unbox_string", "unbox_uint64", "unbox_int64", "unbox_bool":
		x := env.tr(e.Args[0], "Iface")
		bt := basicByName(name[6:])
		srt := u.SortOf(bt)
		return TV{u.Unbox(srt, x.T), srt}
	}
	if sf, ok := env.specs[name]; ok {
		_ = sf
	}
	sig, ok := u.sigs[name]
	if !ok {
		trFail("unknown function %q", name)
	}
	if len(sig.Args) != len(e.Args) {
		trFail("%s expects %d arguments, got %d", name, len(sig.Args), len(e.Args))
	}
	if len(e.Args) == 0 {
		return TV{name, sig.Ret}
	}
	parts := []string{name}
	for i, a := range e.Args {
		x := env.tr(a, sig.Args[i])
		if x.S != sig.Args[i] {
			trFail("argument %d of %s has sort %s, want %s", i+1, name, x.S, sig.Args[i])
		}
		parts = append(parts, x.T)
	}
	return TV{"(" + strings.Join(parts, " ") + ")", sig.Ret}
}
