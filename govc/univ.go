package main

import (
	"fmt"
	"go/types"
	"sort"
	"strings"
)

// Univ collects everything that has to be declared in an SMT query: sorts
// derived from Go types, prelude text, constants, string literals.

type StructInfo struct {
	Sort   string
	Ctor   string
	Fields []FieldInfo
	GoType *types.Struct
	Named  types.Type
}

type FieldInfo struct {
	Name string
	Acc  string
	Sort string
	Typ  types.Type
}

type FuncSig struct {
	Name string
	Args []string
	Ret  string
}

type Univ struct {
	sortNames   map[string]string // go type string -> sort
	usedNames   map[string]bool
	structs     map[string]*StructInfo // by sort name
	dtOrder     []string               // datatype declaration order
	dtDecl      map[string]string
	sigs        map[string]*FuncSig // prelude + generated function signatures
	prelude     []string            // prelude chunks (after datatypes)
	consts      []string            // declare-const lines
	constSort   map[string]string
	strLits     map[string]string // literal -> const name
	strOrder    []string
	boxes       map[string]int // sort -> tag for iface boxing
	boxOrder    []string
	typeTags    map[string]int // go type string -> tag
	nfresh      int
	facts       []string // global facts about generated constants
	typeTagDefs []string
	inProg      map[string]bool
	marshals    map[string]bool
}

func NewUniv() *Univ {
	u := &Univ{
		sortNames: map[string]string{}, usedNames: map[string]bool{}, structs: map[string]*StructInfo{},
		dtDecl: map[string]string{}, sigs: map[string]*FuncSig{}, constSort: map[string]string{},
		strLits: map[string]string{}, boxes: map[string]int{}, typeTags: map[string]int{}, inProg: map[string]bool{},
		marshals: map[string]bool{},
	}
	u.loadBaseSigs()
	u.StrLit("") // the empty string is always str!0 (named str.empty in preludes)
	u.sigs["str.empty"] = &FuncSig{Name: "str.empty", Args: nil, Ret: "Str"}
	return u
}

const basePrelude = `
(declare-sort Str 0)
(declare-sort Iface 0)
(declare-sort Ref 0)
(declare-sort Fn 0)
(declare-sort Ctx 0)
(declare-sort Float 0)
(declare-datatypes ((Slice 1)) ((par (T) ((mkSlice (sl.len Int) (sl.arr (Array Int T)) (sl.nil Bool))))))
(declare-datatypes ((Opt 1)) ((par (T) ((None) (Some (get T))))))
(declare-datatypes ((SdkInt 0)) (((mkInt (ival Int)) (nilInt))))
(declare-datatypes ((SdkDec 0)) (((mkDec (dval Int)) (nilDec))))
(declare-datatypes ((Time 0)) (((mkTime (t.ns Int)))))
(define-fun zeroTime () Time (mkTime (- 62135596800000000000)))
(define-fun nilBytes () (Slice Int) (mkSlice 0 ((as const (Array Int Int)) 0) true))
(declare-sort BytesV 0)
(declare-fun bytesval ((Slice Int)) BytesV)
(declare-fun bvlen (BytesV) Int)
(assert (forall ((a (Slice Int))) (! (=> (>= (sl.len a) 0) (= (bvlen (bytesval a)) (sl.len a))) :pattern ((bytesval a)))))
(declare-fun bvat (BytesV Int) Int)
(assert (forall ((a (Slice Int)) (i Int)) (! (=> (and (<= 0 i) (< i (sl.len a))) (= (bvat (bytesval a) i) (select (sl.arr a) i))) :pattern ((bytesval a) (select (sl.arr a) i)) :pattern ((bvat (bytesval a) i)))))
; extensionality: equal length and equal bytes give the same abstract value
(assert (forall ((a (Slice Int)) (b (Slice Int))) (! (=> (and (= (sl.len a) (sl.len b)) (>= (sl.len a) 0) (forall ((i Int)) (! (=> (and (<= 0 i) (< i (sl.len a))) (= (select (sl.arr a) i) (select (sl.arr b) i))) :pattern ((select (sl.arr a) i)) :pattern ((select (sl.arr b) i))))) (= (bytesval a) (bytesval b))) :pattern ((bytesval a) (bytesval b)))))
(define-fun bytes.eq ((a (Slice Int)) (b (Slice Int))) Bool (= (bytesval a) (bytesval b)))
(declare-fun s.len (Str) Int)
(declare-fun s.cat (Str Str) Str)
(declare-fun s.lt (Str Str) Bool)
(declare-fun s.bytes (Str) (Slice Int))
(declare-fun s.frombytes ((Slice Int)) Str)
(declare-fun s.fmt (Int) Str)
(declare-fun iface.tag (Iface) Int)
(declare-const iface.nil Iface)
(declare-fun f2i (Float) Int)
(declare-fun bitand (Int Int) Int)
(declare-fun bitor (Int Int) Int)
(declare-fun bitxor (Int Int) Int)
(define-fun wrapu8 ((x Int)) Int (mod x 256))
(define-fun wrapu16 ((x Int)) Int (mod x 65536))
(define-fun wrapu32 ((x Int)) Int (mod x 4294967296))
(define-fun wrapu64 ((x Int)) Int (mod x 18446744073709551616))
(define-fun wraps8 ((x Int)) Int (- (mod (+ x 128) 256) 128))
(define-fun wraps16 ((x Int)) Int (- (mod (+ x 32768) 65536) 32768))
(define-fun wraps32 ((x Int)) Int (- (mod (+ x 2147483648) 4294967296) 2147483648))
(define-fun wraps64 ((x Int)) Int (- (mod (+ x 9223372036854775808) 18446744073709551616) 9223372036854775808))
(define-fun tdiv ((a Int) (b Int)) Int (ite (>= a 0) (ite (> b 0) (div a b) (- (div a (- b)))) (ite (> b 0) (- (div (- a) b)) (div (- a) (- b)))))
(define-fun tmod ((a Int) (b Int)) Int (- a (* b (tdiv a b))))
(define-fun imin ((a Int) (b Int)) Int (ite (<= a b) a b))
(define-fun imax ((a Int) (b Int)) Int (ite (>= a b) a b))
(define-fun iabs ((a Int)) Int (ite (>= a 0) a (- a)))
(assert (= (iface.tag iface.nil) 0))
(assert (forall ((s Str)) (! (>= (s.len s) 0) :pattern ((s.len s)))))
(assert (forall ((a Str) (b Str)) (! (= (s.len (s.cat a b)) (+ (s.len a) (s.len b))) :pattern ((s.cat a b)))))
(assert (forall ((s Str)) (! (and (= (sl.len (s.bytes s)) (s.len s)) (not (sl.nil (s.bytes s))) (= (s.frombytes (s.bytes s)) s)) :pattern ((s.bytes s)))))
(assert (forall ((b (Slice Int))) (! (=> (>= (sl.len b) 0) (= (s.len (s.frombytes b)) (sl.len b))) :pattern ((s.frombytes b)))))
`

func (u *Univ) loadBaseSigs() {
	u.addSigsFromSMT(basePrelude)
}

// addSigsFromSMT records the signatures of declare-fun / define-fun /
// declare-const / datatype constructors and accessors found in SMT text.
func (u *Univ) addSigsFromSMT(src string) {
	xs, err := parseSXAll(src)
	if err != nil {
		fatalf("prelude parse error: %v", err)
	}
	for _, x := range xs {
		if !x.IsL || len(x.List) == 0 {
			continue
		}
		switch x.List[0].Atom {
		case "declare-fun":
			sig := &FuncSig{Name: x.List[1].Atom, Ret: x.List[3].String()}
			for _, a := range x.List[2].List {
				sig.Args = append(sig.Args, a.String())
			}
			u.sigs[sig.Name] = sig
		case "declare-const":
			u.sigs[x.List[1].Atom] = &FuncSig{Name: x.List[1].Atom, Ret: x.List[2].String()}
		case "define-fun", "define-fun-rec":
			sig := &FuncSig{Name: x.List[1].Atom, Ret: x.List[3].String()}
			for _, a := range x.List[2].List {
				sig.Args = append(sig.Args, a.List[1].String())
			}
			u.sigs[sig.Name] = sig
		case "declare-datatypes":
			// ((Name arity)...) ((ctors)...)
			for i, nm := range x.List[1].List {
				name := nm.List[0].Atom
				body := x.List[2].List[i]
				par := false
				if len(body.List) > 0 && !body.List[0].IsL && body.List[0].Atom == "par" {
					body = body.List[2]
					par = true
				}
				if par {
					continue // parametric: handled by builtins
				}
				for _, c := range body.List {
					cs := &FuncSig{Name: c.List[0].Atom, Ret: name}
					for _, f := range c.List[1:] {
						cs.Args = append(cs.Args, f.List[1].String())
						u.sigs[f.List[0].Atom] = &FuncSig{Name: f.List[0].Atom, Args: []string{name}, Ret: f.List[1].String()}
					}
					u.sigs[cs.Name] = cs
					u.sigs["is-"+cs.Name] = &FuncSig{Name: "is-" + cs.Name, Args: []string{name}, Ret: "Bool"}
				}
			}
		}
	}
}

func (u *Univ) AddPrelude(text string) {
	u.addSigsFromSMT(text)
	u.prelude = append(u.prelude, text)
}

func (u *Univ) Fresh(prefix, sort string) string {
	u.nfresh++
	name := fmt.Sprintf("%s!%d", sanitize(prefix), u.nfresh)
	u.consts = append(u.consts, fmt.Sprintf("(declare-const %s %s)", name, sort))
	u.constSort[name] = sort
	return name
}

func (u *Univ) Const(name, sort string) string {
	if _, ok := u.constSort[name]; !ok {
		u.consts = append(u.consts, fmt.Sprintf("(declare-const %s %s)", name, sort))
		u.constSort[name] = sort
	}
	return name
}

func sanitize(s string) string {
	var b strings.Builder
	for _, r := range s {
		if r >= 'a' && r <= 'z' || r >= 'A' && r <= 'Z' || r >= '0' && r <= '9' || r == '_' || r == '.' {
			b.WriteRune(r)
		} else {
			b.WriteRune('_')
		}
	}
	if b.Len() == 0 {
		return "v"
	}
	return b.String()
}

func (u *Univ) StrLit(s string) string {
	if c, ok := u.strLits[s]; ok {
		return c
	}
	name := fmt.Sprintf("str!%d", len(u.strOrder))
	u.strLits[s] = name
	u.strOrder = append(u.strOrder, s)
	return name
}

func shortPkg(path string) string {
	const repo = "github.com/unification-com/mainchain/"
	if strings.HasPrefix(path, repo) {
		p := strings.TrimPrefix(path, repo)
		p = strings.TrimPrefix(p, "x/")
		parts := strings.Split(p, "/")
		if parts[len(parts)-1] == "types" && len(parts) > 1 {
			parts = parts[:len(parts)-1]
		}
		return strings.Join(parts, ".")
	}
	switch path {
	case "github.com/cosmos/cosmos-sdk/types":
		return "sdk"
	case "cosmossdk.io/math":
		return "math"
	}
	parts := strings.Split(path, "/")
	if len(parts) >= 2 && (parts[len(parts)-1] == "types" || parts[len(parts)-1] == "keeper") {
		return parts[len(parts)-2] + "." + parts[len(parts)-1]
	}
	return parts[len(parts)-1]
}

var sortOverrides = map[string]string{
	"cosmossdk.io/math.Int":                       "SdkInt",
	"cosmossdk.io/math.LegacyDec":                 "SdkDec",
	"github.com/cosmos/cosmos-sdk/types.Int":      "SdkInt",
	"github.com/cosmos/cosmos-sdk/types.Dec":      "SdkDec",
	"time.Time":                                   "Time",
	"github.com/cosmos/cosmos-sdk/types.Context":  "Ctx",
	"context.Context":                             "Ctx",
	"github.com/cosmos/cosmos-sdk/types.Iterator": "Iface",
}

// SortOf maps a Go type to the SMT sort of its values.  Pointers that have to
// live inside SMT terms are opaque (Ref).
func (u *Univ) SortOf(t types.Type) string {
	key := t.String()
	if s, ok := u.sortNames[key]; ok {
		return s
	}
	if s, ok := sortOverrides[key]; ok {
		u.sortNames[key] = s
		return s
	}
	t = types.Unalias(t)
	var s string
	switch tt := t.(type) {
	case *types.Named:
		if st, ok := tt.Underlying().(*types.Struct); ok {
			s = u.structSort(tt, st)
		} else {
			s = u.SortOf(tt.Underlying())
		}
	case *types.Basic:
		switch {
		case tt.Info()&types.IsInteger != 0:
			s = "Int"
		case tt.Info()&types.IsBoolean != 0:
			s = "Bool"
		case tt.Info()&types.IsString != 0:
			s = "Str"
		case tt.Info()&types.IsFloat != 0:
			s = "Float"
		case tt.Kind() == types.UnsafePointer:
			s = "Ref"
		case tt.Kind() == types.UntypedNil:
			s = "Ref"
		default:
			s = "Ref"
		}
	case *types.Pointer:
		s = "Ref"
	case *types.Struct:
		s = u.structSort(nil, tt)
	case *types.Slice:
		s = "(Slice " + u.SortOf(tt.Elem()) + ")"
	case *types.Array:
		s = "(Array Int " + u.SortOf(tt.Elem()) + ")"
	case *types.Map:
		s = "(Array " + u.SortOf(tt.Key()) + " (Opt " + u.SortOf(tt.Elem()) + "))"
	case *types.Interface:
		s = "Iface"
	case *types.Signature:
		s = "Fn"
	case *types.TypeParam:
		s = "Iface"
	case *types.Chan:
		s = "Ref"
	case *types.Tuple:
		s = "Ref"
	default:
		s = "Ref"
	}
	u.sortNames[key] = s
	return s
}

func (u *Univ) structSort(named *types.Named, st *types.Struct) string {
	var name string
	if named != nil {
		obj := named.Obj()
		pkg := ""
		if obj.Pkg() != nil {
			pkg = shortPkg(obj.Pkg().Path()) + "."
		}
		name = pkg + obj.Name()
		if named.TypeArgs() != nil && named.TypeArgs().Len() > 0 {
			name += fmt.Sprintf("!g%d", len(u.usedNames))
		}
	} else {
		name = fmt.Sprintf("anon.struct%d", len(u.usedNames))
	}
	base := name
	for i := 2; u.usedNames[name]; i++ {
		name = fmt.Sprintf("%s!%d", base, i)
	}
	u.usedNames[name] = true
	key := ""
	if named != nil {
		key = named.String()
	} else {
		key = st.String()
	}
	if u.inProg[key] {
		// recursive type: cut with an opaque reference
		return "Ref"
	}
	u.inProg[key] = true
	u.sortNames[key] = name
	info := &StructInfo{Sort: name, Ctor: "mk." + name, GoType: st, Named: named}
	for i := 0; i < st.NumFields(); i++ {
		f := st.Field(i)
		fs := u.SortOf(f.Type())
		info.Fields = append(info.Fields, FieldInfo{Name: f.Name(), Acc: name + "." + f.Name(), Sort: fs, Typ: f.Type()})
	}
	delete(u.inProg, key)
	u.structs[name] = info
	var b strings.Builder
	if len(info.Fields) == 0 {
		fmt.Fprintf(&b, "(declare-datatypes ((%s 0)) (((%s))))", name, info.Ctor)
	} else {
		fmt.Fprintf(&b, "(declare-datatypes ((%s 0)) (((%s", name, info.Ctor)
		for _, f := range info.Fields {
			fmt.Fprintf(&b, " (%s %s)", f.Acc, f.Sort)
		}
		b.WriteString("))))")
	}
	u.dtDecl[name] = b.String()
	u.dtOrder = append(u.dtOrder, name)
	cs := &FuncSig{Name: info.Ctor, Ret: name}
	for _, f := range info.Fields {
		cs.Args = append(cs.Args, f.Sort)
		u.sigs[f.Acc] = &FuncSig{Name: f.Acc, Args: []string{name}, Ret: f.Sort}
	}
	u.sigs[info.Ctor] = cs
	return name
}

// Box functions for putting a value of a sort into an interface.
func (u *Univ) BoxTag(goType types.Type) int {
	k := goType.String()
	if t, ok := u.typeTags[k]; ok {
		return t
	}
	t := len(u.typeTags) + 1
	u.typeTags[k] = t
	return t
}

func (u *Univ) boxName(sort string) string {
	if _, ok := u.boxes[sort]; !ok {
		u.boxes[sort] = len(u.boxes)
		u.boxOrder = append(u.boxOrder, sort)
	}
	return fmt.Sprintf("box!%d", u.boxes[sort])
}

func (u *Univ) Box(sort string, tag int, term string) string {
	return fmt.Sprintf("(%s %d %s)", u.boxName(sort), tag, term)
}
func (u *Univ) Unbox(sort string, term string) string {
	u.boxName(sort)
	return fmt.Sprintf("(unbox!%d %s)", u.boxes[sort], term)
}

// Marshal/unmarshal functions per sort (codec round trip axiom).
func (u *Univ) MarshalFn(sort string) (string, string) {
	u.marshals[sort] = true
	return "marshal." + sanitize(sort), "unmarshal." + sanitize(sort)
}

// Decls renders all declarations in dependency order.
func (u *Univ) Decls() string {
	var b strings.Builder
	b.WriteString(basePrelude)
	for _, n := range u.dtOrder {
		b.WriteString(u.dtDecl[n])
		b.WriteString("\n")
	}
	for _, s := range u.boxOrder {
		i := u.boxes[s]
		fmt.Fprintf(&b, "(declare-fun box!%d (Int %s) Iface)\n(declare-fun unbox!%d (Iface) %s)\n", i, s, i, s)
		fmt.Fprintf(&b, "(assert (forall ((t Int) (x %s)) (! (and (= (iface.tag (box!%d t x)) t) (= (unbox!%d (box!%d t x)) x)) :pattern ((box!%d t x)))))\n", s, i, i, i, i)
	}
	ms := make([]string, 0, len(u.marshals))
	for s := range u.marshals {
		ms = append(ms, s)
	}
	sort.Strings(ms)
	for _, s := range ms {
		m, um := u.MarshalFn(s)
		fmt.Fprintf(&b, "(declare-fun %s (%s) (Slice Int))\n(declare-fun %s ((Slice Int)) %s)\n", m, s, um, s)
		guard := "true"
		if info := u.structs[s]; info != nil && info.Named != nil {
			guard = u.WellTyped(info.Named, "x", 0)
		}
		// the round trip holds for well-typed values (an out-of-range integer field is not a Go value)
		fmt.Fprintf(&b, "(assert (forall ((x %s)) (! (and (=> %s (= (%s (%s x)) x)) (not (sl.nil (%s x)))) :pattern ((%s x)))))\n", s, guard, um, m, m, m)
		// decoding yields well-typed values (integer fields within their machine ranges)
		if info := u.structs[s]; info != nil && info.Named != nil {
			if wt := u.WellTyped(info.Named, "("+um+" b!w)", 0); wt != "true" {
				fmt.Fprintf(&b, "(assert (forall ((b!w (Slice Int))) (! %s :pattern ((%s b!w)))))\n", wt, um)
			}
		}
	}
	for _, d := range u.typeTagDefs {
		b.WriteString(d)
		b.WriteString("\n")
	}
	for i, lit := range u.strOrder {
		fmt.Fprintf(&b, "(declare-const str!%d Str) ; %q\n(assert (= (s.len str!%d) %d))\n", i, trunc(lit, 40), i, len(lit))
	}
	if len(u.strOrder) > 1 {
		b.WriteString("(assert (distinct")
		for i := range u.strOrder {
			fmt.Fprintf(&b, " str!%d", i)
		}
		b.WriteString("))\n")
	}
	b.WriteString("(define-fun str.empty () Str str!0)\n")
	// the only string of length 0 is the empty string (so `len(s) == 0` and `s == ""` are the same test)
	b.WriteString("(assert (forall ((s Str)) (! (=> (= (s.len s) 0) (= s str!0)) :pattern ((s.len s)))))\n")
	for _, p := range u.prelude {
		b.WriteString(p)
		b.WriteString("\n")
	}
	b.WriteString(constsMarker)
	for _, c := range u.consts {
		b.WriteString(c)
		b.WriteString("\n")
	}
	for _, f := range u.facts {
		b.WriteString("(assert " + f + ")\n")
	}
	return b.String()
}

const constsMarker = ";;--constants--\n"

func trunc(s string, n int) string {
	if len(s) > n {
		return s[:n] + "…"
	}
	return s
}

// intRange returns the bounds of a Go integer type.
func intRange(t types.Type) (lo, hi string, signed bool, bits int, ok bool) {
	b, isb := t.Underlying().(*types.Basic)
	if !isb || b.Info()&types.IsInteger == 0 {
		return "", "", false, 0, false
	}
	switch b.Kind() {
	case types.Int8:
		return "(- 128)", "127", true, 8, true
	case types.Int16:
		return "(- 32768)", "32767", true, 16, true
	case types.Int32:
		return "(- 2147483648)", "2147483647", true, 32, true
	case types.Int, types.Int64:
		return "(- 9223372036854775808)", "9223372036854775807", true, 64, true
	case types.Uint8:
		return "0", "255", false, 8, true
	case types.Uint16:
		return "0", "65535", false, 16, true
	case types.Uint32:
		return "0", "4294967295", false, 32, true
	case types.Uint, types.Uint64, types.Uintptr:
		return "0", "18446744073709551615", false, 64, true
	case types.UntypedInt, types.UntypedRune:
		return "", "", true, 0, false
	}
	return "", "", false, 0, false
}

// WellTyped returns an SMT formula stating that term (of the sort of t) is a
// legal Go value of type t (integer ranges, non-negative lengths).
func (u *Univ) WellTyped(t types.Type, term string, depth int) string {
	if depth > 6 {
		return "true"
	}
	if _, ok := sortOverrides[t.String()]; ok {
		return "true"
	}
	t = types.Unalias(t)
	switch tt := t.Underlying().(type) {
	case *types.Basic:
		lo, hi, _, _, ok := intRange(tt)
		if ok {
			return fmt.Sprintf("(and (<= %s %s) (<= %s %s))", lo, term, term, hi)
		}
		return "true"
	case *types.Struct:
		sort := u.SortOf(t)
		info := u.structs[sort]
		if info == nil {
			return "true"
		}
		var parts []string
		for _, f := range info.Fields {
			w := u.WellTyped(f.Typ, fmt.Sprintf("(%s %s)", f.Acc, term), depth+1)
			if w != "true" {
				parts = append(parts, w)
			}
		}
		return and(parts...)
	case *types.Slice:
		// len is a Go int: 0 <= len <= 2^63-1
		parts := []string{fmt.Sprintf("(>= (sl.len %s) 0)", term), fmt.Sprintf("(<= (sl.len %s) 9223372036854775807)", term), fmt.Sprintf("(=> (sl.nil %s) (= (sl.len %s) 0))", term, term)}
		// the bound index is named after the nesting depth: nested slices must not capture the outer index
		iv := fmt.Sprintf("wt!i%d", depth)
		ew := u.WellTyped(tt.Elem(), fmt.Sprintf("(select (sl.arr %s) %s)", term, iv), depth+1)
		if ew != "true" {
			parts = append(parts, fmt.Sprintf("(forall ((%s Int)) (! (=> (and (<= 0 %s) (< %s (sl.len %s))) %s) :pattern ((select (sl.arr %s) %s))))", iv, iv, iv, term, ew, term, iv))
		}
		return and(parts...)
	}
	return "true"
}

func and(parts ...string) string {
	var ps []string
	for _, p := range parts {
		if p == "true" || p == "" {
			continue
		}
		if p == "false" {
			return "false"
		}
		ps = append(ps, p)
	}
	switch len(ps) {
	case 0:
		return "true"
	case 1:
		return ps[0]
	}
	return "(and " + strings.Join(ps, " ") + ")"
}

func or(parts ...string) string {
	var ps []string
	for _, p := range parts {
		if p == "false" || p == "" {
			continue
		}
		if p == "true" {
			return "true"
		}
		ps = append(ps, p)
	}
	switch len(ps) {
	case 0:
		return "false"
	case 1:
		return ps[0]
	}
	return "(or " + strings.Join(ps, " ") + ")"
}

func not(p string) string {
	switch p {
	case "true":
		return "false"
	case "false":
		return "true"
	}
	if strings.HasPrefix(p, "(not ") && strings.HasSuffix(p, ")") {
		inner := p[5 : len(p)-1]
		if balanced(inner) {
			return inner
		}
	}
	return "(not " + p + ")"
}

func balanced(s string) bool {
	d := 0
	for i, c := range s {
		if c == '(' {
			d++
		} else if c == ')' {
			d--
			if d == 0 && i != len(s)-1 {
				return false
			}
			if d < 0 {
				return false
			}
		} else if d == 0 && (c == ' ') {
			return false
		}
	}
	return d == 0
}

func implies(a, b string) string {
	if a == "true" {
		return b
	}
	if b == "true" || a == "false" {
		return "true"
	}
	return "(=> " + a + " " + b + ")"
}

// zero value of a Go type as an SMT term
func (u *Univ) Zero(t types.Type) string {
	if s, ok := sortOverrides[t.String()]; ok {
		switch s {
		case "SdkInt":
			return "nilInt"
		case "SdkDec":
			return "nilDec"
		case "Time":
			return "zeroTime"
		default:
			return u.Fresh("zero", s)
		}
	}
	t = types.Unalias(t)
	switch tt := t.Underlying().(type) {
	case *types.Basic:
		switch {
		case tt.Info()&types.IsInteger != 0:
			return "0"
		case tt.Info()&types.IsBoolean != 0:
			return "false"
		case tt.Info()&types.IsString != 0:
			return u.StrLit("")
		}
	case *types.Struct:
		sort := u.SortOf(t)
		info := u.structs[sort]
		if info == nil {
			break
		}
		if len(info.Fields) == 0 {
			return info.Ctor
		}
		parts := []string{info.Ctor}
		for _, f := range info.Fields {
			parts = append(parts, u.Zero(f.Typ))
		}
		return "(" + strings.Join(parts, " ") + ")"
	case *types.Slice:
		es := u.SortOf(tt.Elem())
		return fmt.Sprintf("(mkSlice 0 %s true)", u.Const("zarr."+sanitize(es), "(Array Int "+es+")"))
	case *types.Interface:
		return "iface.nil"
	case *types.Array:
		es := u.SortOf(tt.Elem())
		z := u.Zero(tt.Elem())
		if isValueTerm(z) {
			return fmt.Sprintf("((as const (Array Int %s)) %s)", es, z)
		}
		// cvc5 accepts only values in constant arrays: use a fresh array, zero at every index
		a := u.Fresh("zeroarr", "(Array Int "+es+")")
		u.facts = append(u.facts, fmt.Sprintf("(forall ((i!z Int)) (! (= (select %s i!z) %s) :pattern ((select %s i!z))))", a, z, a))
		return a
	case *types.Map:
		ks, vs := u.SortOf(tt.Key()), u.SortOf(tt.Elem())
		return fmt.Sprintf("((as const (Array %s (Opt %s))) (as None (Opt %s)))", ks, vs, vs)
	case *types.Pointer:
		return u.Const("ref.nil", "Ref")
	case *types.Signature:
		return u.Const("fn.nil", "Fn")
	}
	return u.Fresh("zero", u.SortOf(t))
}

// isValueTerm: literals and constructor applications over literals (what cvc5 accepts inside constant arrays)
func isValueTerm(t string) bool {
	for _, tok := range strings.FieldsFunc(t, func(r rune) bool { return r == '(' || r == ')' || r == ' ' }) {
		switch {
		case isIntLit(tok), tok == "-", tok == "true", tok == "false", tok == "nilInt", tok == "nilDec":
		case strings.HasPrefix(tok, "mk"), tok == "as", tok == "None", tok == "Opt", tok == "Int", tok == "Bool":
		default:
			return false
		}
	}
	return true
}
