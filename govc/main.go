package main

import (
	"encoding/json"
	"flag"
	"fmt"
	"golang.org/x/tools/go/ssa"
	"os"
	"path/filepath"
	"sort"
	"strings"
	"sync"
	"time"
)

func main() {
	if len(os.Args) < 2 {
		fmt.Fprintln(os.Stderr, "usage: govc check|verify|list ...")
		os.Exit(2)
	}
	initScratch()
	code := 0
	switch os.Args[1] {
	case "check":
		code = cmdCheck(os.Args[2:])
	case "verify":
		code = cmdVerify(os.Args[2:])
	case "list":
		code = cmdList(os.Args[2:])
	case "closure":
		code = cmdClosure(os.Args[2:])
	default:
		fmt.Fprintln(os.Stderr, "unknown command", os.Args[1])
		code = 2
	}
	cleanupScratch()
	os.Exit(code)
}

func loadContracts(repo, verif string) *ContractSet {
	cs := NewContractSet()
	specs, _ := filepath.Glob(filepath.Join(verif, "trusted", "*.spec"))
	sort.Strings(specs)
	more, _ := filepath.Glob(filepath.Join(verif, "specs", "*.spec"))
	sort.Strings(more)
	specs = append(specs, more...)
	for _, s := range specs {
		if err := cs.LoadFile(s, ""); err != nil {
			fatalf("%v", err)
		}
	}
	files, err := FindContractFiles(repo, repoModule)
	if err != nil {
		fatalf("%v", err)
	}
	var paths []string
	for p := range files {
		paths = append(paths, p)
	}
	sort.Strings(paths)
	for _, p := range paths {
		if err := cs.LoadFile(p, files[p]); err != nil {
			fatalf("%v", err)
		}
	}
	return cs
}

func pkgOfKey(key string) string {
	k := key
	if strings.HasPrefix(k, "(") {
		k = k[1:strings.Index(k, ")")]
		k = strings.TrimPrefix(k, "*")
	}
	dot := strings.LastIndex(k, ".")
	return k[:dot]
}

func cmdList(args []string) int {
	fs := flag.NewFlagSet("list", flag.ExitOnError)
	repo := fs.String("repo", "/repo", "")
	verif := fs.String("verif", "/verif", "")
	fs.Parse(args)
	cs := loadContracts(*repo, *verif)
	for _, k := range cs.SortedKeys() {
		c := cs.ByKey[k]
		fmt.Printf("%-90s props=%v extern=%v trusted=%v ensures=%d\n", shortFn(k), c.Props, c.Extern, c.Trusted, len(c.Ensures))
	}
	return 0
}

func cmdVerify(args []string) int {
	fs := flag.NewFlagSet("verify", flag.ExitOnError)
	repo := fs.String("repo", "/repo", "")
	verif := fs.String("verif", "/verif", "")
	match := fs.String("func", "", "substring of the function key")
	dump := fs.String("dump", "", "directory to dump queries")
	timeout := fs.Duration("timeout", 20*time.Second, "")
	verbose := fs.Bool("v", false, "")
	fs.Parse(args)
	repoRoot = strings.TrimSuffix(*repo, "/")
	cs := loadContracts(*repo, *verif)
	var sel []string
	pkgSet := map[string]bool{}
	for _, k := range cs.SortedKeys() {
		c := cs.ByKey[k]
		if c.Extern || c.Inline || !strings.Contains(k, *match) {
			continue
		}
		sel = append(sel, k)
		pkgSet[pkgOfKey(k)] = true
	}
	if len(sel) == 0 {
		fmt.Println("no function matches")
		return 2
	}
	addContractPkgs(pkgSet, cs)
	var pats []string
	for p := range pkgSet {
		pats = append(pats, p)
	}
	sort.Strings(pats)
	t0 := time.Now()
	prog, err := LoadProgram(*repo, pats)
	if err != nil {
		fatalf("load: %v", err)
	}
	fmt.Printf("loaded %v in %.1fs\n", pats, time.Since(t0).Seconds())
	bad := 0
	reps := make([]*FuncReport, len(sel))
	{
		var wg sync.WaitGroup
		sem := make(chan struct{}, 8)
		for i, k := range sel {
			wg.Add(1)
			go func(i int, k string) {
				defer wg.Done()
				sem <- struct{}{}
				defer func() { <-sem }()
				reps[i] = VerifyFunction(prog, cs, k, cs.ByKey[k], 4000)
			}(i, k)
		}
		wg.Wait()
		var all []*Obligation
		for _, r := range reps {
			if r.Unsupported == "" && !r.Trusted {
				all = append(all, r.Obls...)
			}
		}
		if os.Getenv("GOVC_NO_FAILFAST") == "" {
			noFailFast = true
		}
		SolveAll(all, *timeout, false, 8)
	}
	for i, k := range sel {
		rep := reps[i]
		if rep.Unsupported != "" {
			fmt.Printf("%s: OUTSIDE SUBSET: %s\n", shortFn(k), rep.Unsupported)
			bad++
			continue
		}
		if rep.Trusted {
			fmt.Printf("%s: trusted (%s)\n", shortFn(k), rep.TrustNote)
			continue
		}
		groups := groupObls(rep.Obls)
		fmt.Printf("%s: %d paths, %d queries, %d obligations, havocs=%d\n", shortFn(k), rep.Paths, len(rep.Obls), len(groups), len(rep.Havocs))
		for _, h := range rep.Havocs {
			if *verbose {
				fmt.Printf("    havoc: %s\n", h)
			}
		}
		for _, g := range groups {
			status := "ok"
			if !g.OK {
				status = "FAILED"
				bad++
			}
			if *verbose || !g.OK {
				fmt.Printf("  %-70s %s (%d queries, %.2fs, %s)\n", g.Name, status, len(g.Obls), g.Time, g.Backends())
			}
			if !g.OK {
				for _, o := range g.Obls {
					if !o.OK() {
						fmt.Printf("      %s at %s: %s\n      clause: %s\n", o.Result.Status, o.Where, firstLine(o.Result.Output), o.Clause)
						if o.Result.Values != nil {
							var ks []string
							for k := range o.Result.Values {
								ks = append(ks, k)
							}
							sort.Strings(ks)
							for _, k := range ks {
								fmt.Printf("        %s = %s\n", k, o.Result.Values[k])
							}
						}
						break
					}
				}
			}
		}
		if *dump != "" {
			os.MkdirAll(*dump, 0o755)
			for i, o := range rep.Obls {
				name := fmt.Sprintf("%s_%03d.smt2", sanitize(o.Name), i)
				os.WriteFile(filepath.Join(*dump, name), []byte("(set-logic ALL)\n"+o.Decls+addUnfoldings(o.Decls, o.Query)+"(check-sat)\n"), 0o644)
			}
		}
	}
	if bad > 0 {
		return 1
	}
	return 0
}

func firstLine(s string) string {
	s = strings.TrimSpace(s)
	if i := strings.Index(s, "\n"); i >= 0 {
		return s[:i]
	}
	return s
}

type OblGroup struct {
	Name  string
	Obls  []*Obligation
	OK    bool
	Time  float64
	Props []string
	Kind  string
}

func (g *OblGroup) Backends() string {
	m := map[string]int{}
	for _, o := range g.Obls {
		if o.Result != nil {
			m[o.Result.Backend]++
		}
	}
	var ps []string
	for k, v := range m {
		ps = append(ps, fmt.Sprintf("%s:%d", k, v))
	}
	sort.Strings(ps)
	return strings.Join(ps, ",")
}

func groupObls(obls []*Obligation) []*OblGroup {
	m := map[string]*OblGroup{}
	var order []string
	for _, o := range obls {
		g, ok := m[o.Name]
		if !ok {
			g = &OblGroup{Name: o.Name, OK: true, Props: o.Props, Kind: o.Kind}
			m[o.Name] = g
			order = append(order, o.Name)
		}
		g.Obls = append(g.Obls, o)
		if !o.OK() {
			g.OK = false
		}
		if o.Result != nil {
			g.Time += o.Result.Time
		}
	}
	var out []*OblGroup
	for _, n := range order {
		g := m[n]
		// vacuity guard with "any" semantics: at least one return path must not be refutable
		if strings.HasSuffix(g.Name, "#cover:some-return-path-reachable") {
			g.OK = false
			for _, o := range g.Obls {
				if o.OK() {
					g.OK = true
				}
			}
		}
		out = append(out, g)
	}
	return out
}

func writeJSON(path string, v interface{}) error {
	data, err := json.MarshalIndent(v, "", " ")
	if err != nil {
		return err
	}
	os.MkdirAll(filepath.Dir(path), 0o755)
	return os.WriteFile(path, append(data, '\n'), 0o644)
}

// addContractPkgs: keeper- and ante-level checks talk about several modules (ghost stores, preludes, interface
// implementations), so as soon as a selected package is not a leaf `types` package every package that carries a
// contract file is loaded.
// repoRoot: the directory the repository is loaded from (set by the -repo flag)
var repoRoot = "/repo"

func addContractPkgs(pkgSet map[string]bool, cs *ContractSet) {
	leafOnly := true
	for p := range pkgSet {
		if !strings.HasSuffix(p, "/types") && p != repoModule+"/types" {
			leafOnly = false
		}
	}
	if leafOnly {
		return
	}
	for _, f := range cs.Files {
		if strings.HasSuffix(f, "zz_contracts_verif.go") {
			rel := strings.TrimPrefix(filepath.Dir(f), repoRoot)
			pkgSet[repoModule+rel] = true
		}
	}
}

// calleeClosure: the contracted repository functions that the functions in sel call (transitively, through inlined
// and uncontracted helpers and through the keeper interfaces declared with `implements`) and that are not in sel.
// A caller is verified against its callees' contracts, so a property is decided by a check only if that check also
// verifies those contracts against their bodies.
func calleeClosure(prog *Program, cs *ContractSet, sel []string) []string {
	inSel := map[string]bool{}
	for _, k := range sel {
		inSel[k] = true
	}
	work := append([]string(nil), sel...)
	missing := map[string]bool{}
	for len(work) > 0 {
		k := work[len(work)-1]
		work = work[:len(work)-1]
		fn := prog.FindFunc(k)
		if fn == nil {
			continue
		}
		seenFn := map[*ssa.Function]bool{}
		var visit func(f *ssa.Function, depth int)
		visit = func(f *ssa.Function, depth int) {
			if seenFn[f] || depth > 6 {
				return
			}
			seenFn[f] = true
			for _, c := range callsOf(f) {
				keys := []string{c.callee}
				if c.invoke {
					keys = nil
					for iface, conc := range cs.Impls {
						if strings.HasPrefix(c.callee, "("+iface+").") {
							keys = append(keys, "("+conc+")."+c.callee[len(iface)+3:])
						}
					}
				}
				for _, ck := range keys {
					ct := cs.Lookup(ck)
					if ct == nil {
						if cf := prog.FindFunc(ck); cf != nil && cf.Pkg != nil && prog.isRepoPkg(cf.Pkg.Pkg.Path()) {
							visit(cf, depth+1)
						}
						continue
					}
					if ct.Extern {
						continue
					}
					if ct.Inline {
						if cf := prog.FindFunc(ck); cf != nil {
							visit(cf, depth+1)
						}
						continue
					}
					if ct.Trusted || inSel[ct.Key] {
						continue
					}
					inSel[ct.Key] = true
					missing[ct.Key] = true
					work = append(work, ct.Key)
				}
			}
			for _, af := range f.AnonFuncs {
				visit(af, depth+1)
			}
		}
		visit(fn, 0)
	}
	var ms []string
	for k := range missing {
		ms = append(ms, k)
	}
	sort.Strings(ms)
	return ms
}

// cmdClosure lists, per property, what calleeClosure adds to the functions tagged with the property.
func cmdClosure(args []string) int {
	fs := flag.NewFlagSet("closure", flag.ExitOnError)
	repo := fs.String("repo", "/repo", "")
	verif := fs.String("verif", "/verif", "")
	fs.Parse(args)
	repoRoot = strings.TrimSuffix(*repo, "/")
	cs := loadContracts(*repo, *verif)
	pkgSet := map[string]bool{}
	for _, k := range cs.SortedKeys() {
		if !cs.ByKey[k].Extern {
			pkgSet[pkgOfKey(k)] = true
		}
	}
	var pats []string
	for p := range pkgSet {
		pats = append(pats, p)
	}
	sort.Strings(pats)
	prog, err := LoadProgram(*repo, pats)
	if err != nil {
		fatalf("load: %v", err)
	}
	for n := 1; n <= 20; n++ {
		prop := fmt.Sprintf("C%02d", n)
		var sel []string
		for _, k := range cs.SortedKeys() {
			c := cs.ByKey[k]
			if !c.Extern && c.HasProp(prop) {
				sel = append(sel, k)
			}
		}
		ms := calleeClosure(prog, cs, sel)
		for i := range ms {
			ms[i] = shortFn(ms[i])
		}
		fmt.Printf("%s %d: %s\n", prop, len(ms), strings.Join(ms, ", "))
	}
	return 0
}
