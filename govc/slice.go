package main

import (
	"strings"
	"sync"
)

// Cone-of-influence slicing of the declarations of a query: only the declarations, definitions and axioms that are
// (transitively) relevant to the symbols of the query are sent to the solver.  Dropping assertions is sound for the
// unsat answers that discharge obligations; it keeps unrelated modules' preludes out of every query.

type declItem struct {
	text     string
	declares []string
	refs     map[string]bool
	isAssert bool
	always   bool
}

type declIndex struct {
	items  []*declItem
	byName map[string]int
}

var declCache sync.Map // decls string -> *declIndex

func indexDecls(decls string) *declIndex {
	if v, ok := declCache.Load(decls); ok {
		return v.(*declIndex)
	}
	idx := &declIndex{byName: map[string]int{}}
	xs, err := parseSXAll(decls)
	if err != nil {
		idx = nil
		declCache.Store(decls, idx)
		return nil
	}
	for _, x := range xs {
		it := &declItem{text: x.String(), refs: map[string]bool{}}
		collectAtoms(x, it.refs)
		if x.IsL && len(x.List) > 0 && !x.List[0].IsL {
			switch x.List[0].Atom {
			case "declare-fun", "declare-const", "define-fun", "define-fun-rec", "declare-sort", "define-sort":
				it.declares = []string{x.List[1].Atom}
			case "declare-datatypes":
				for i, nm := range x.List[1].List {
					it.declares = append(it.declares, nm.List[0].Atom)
					body := x.List[2].List[i]
					if len(body.List) > 0 && !body.List[0].IsL && body.List[0].Atom == "par" {
						body = body.List[2]
					}
					for _, c := range body.List {
						if c.IsL && len(c.List) > 0 {
							it.declares = append(it.declares, c.List[0].Atom)
							for _, f := range c.List[1:] {
								if f.IsL && len(f.List) > 0 {
									it.declares = append(it.declares, f.List[0].Atom)
								}
							}
						} else if !c.IsL {
							it.declares = append(it.declares, c.Atom)
						}
					}
				}
			case "assert":
				it.isAssert = true
			default:
				it.always = true
			}
		} else {
			it.always = true
		}
		for _, d := range it.declares {
			idx.byName[d] = len(idx.items)
			delete(it.refs, d)
		}
		idx.items = append(idx.items, it)
	}
	declCache.Store(decls, idx)
	return idx
}

func collectAtoms(x *SX, out map[string]bool) {
	if !x.IsL {
		out[x.Atom] = true
		return
	}
	for _, c := range x.List {
		collectAtoms(c, out)
	}
}

// sliceDecls returns the part of decls relevant to query.
func sliceDecls(decls, query string) string {
	// the static part (sorts, preludes, literals) is indexed once; the per-function constants follow the marker
	static, dynamic := decls, ""
	if i := strings.Index(decls, constsMarker); i >= 0 {
		static, dynamic = decls[:i], decls[i+len(constsMarker):]
	}
	idx := indexDecls(static)
	if idx == nil {
		return decls
	}
	need := map[string]bool{}
	xs, err := parseSXAll(query)
	if err != nil {
		return decls
	}
	for _, x := range xs {
		collectAtoms(x, need)
	}
	// constants and facts about them (fixpoint): a fact is kept when it mentions a needed constant, and then needs
	// every constant it mentions
	constLine := map[string]string{}
	var constOrder []string
	type factT struct {
		line  string
		atoms map[string]bool
	}
	var facts []factT
	for _, line := range strings.Split(dynamic, "\n") {
		if line == "" {
			continue
		}
		f := strings.Fields(line)
		if len(f) >= 2 && f[0] == "(declare-const" {
			constLine[f[1]] = line
			constOrder = append(constOrder, f[1])
			continue
		}
		at := map[string]bool{}
		if lx, err := parseSXAll(line); err == nil {
			for _, x := range lx {
				collectAtoms(x, at)
			}
		}
		facts = append(facts, factT{line, at})
	}
	factIn := make([]bool, len(facts))
	for ch := true; ch; {
		ch = false
		for i, f := range facts {
			if factIn[i] {
				continue
			}
			hit := false
			for a := range f.atoms {
				if _, isConst := constLine[a]; isConst && need[a] {
					hit = true
				}
			}
			if hit {
				factIn[i] = true
				ch = true
				for a := range f.atoms {
					need[a] = true
				}
			}
		}
	}
	var dyn strings.Builder
	for _, c := range constOrder {
		if need[c] {
			dyn.WriteString(constLine[c] + "\n")
			if lx, err := parseSXAll(constLine[c]); err == nil {
				for _, x := range lx {
					collectAtoms(x, need)
				}
			}
		}
	}
	for i, f := range facts {
		if factIn[i] {
			dyn.WriteString(f.line + "\n")
		}
	}
	include := make([]bool, len(idx.items))
	// axioms are attached to the uninterpreted symbols they constrain: an assertion is included when every declared
	// (non-builtin) symbol it mentions is already needed, or when it mentions a needed symbol that it is "about"
	changed := true
	for changed {
		changed = false
		for sym := range need {
			if i, ok := idx.byName[sym]; ok && !include[i] {
				include[i] = true
				changed = true
				for r := range idx.items[i].refs {
					if !need[r] {
						need[r] = true
					}
				}
			}
		}
		for i, it := range idx.items {
			if include[i] || !it.isAssert {
				continue
			}
			// include the axiom if it mentions at least one needed declared function symbol
			hit := false
			for r := range it.refs {
				if _, declared := idx.byName[r]; declared && need[r] && !isSortOrCtor(idx, r) {
					hit = true
					break
				}
			}
			if hit {
				include[i] = true
				changed = true
				for r := range it.refs {
					need[r] = true
				}
			}
		}
	}
	var b strings.Builder
	for i, it := range idx.items {
		if include[i] || it.always {
			b.WriteString(it.text)
			b.WriteString("\n")
		}
	}
	b.WriteString(dyn.String())
	return b.String()
}

// isSortOrCtor: sorts, datatype constructors/accessors and the generic helpers do not make an axiom relevant by themselves.
func isSortOrCtor(idx *declIndex, sym string) bool {
	i := idx.byName[sym]
	t := idx.items[i].text
	if strings.HasPrefix(t, "(declare-datatypes") || strings.HasPrefix(t, "(declare-sort") || strings.HasPrefix(t, "(define-sort") {
		return true
	}
	switch sym {
	case "s.len", "iface.tag", "iface.nil", "bytesval", "bvlen", "imin", "imax", "iabs", "tdiv", "tmod", "ONE", "P255", "P256", "P315", "NS", "MAXDUR", "Amt", "UnixNs", "nilBytes":
		return false
	}
	return false
}
