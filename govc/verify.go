package main

import (
	"fmt"
	"go/types"
	"os"
	"sort"
	"strings"
	"sync"
	"sync/atomic"
	"time"

	"golang.org/x/tools/go/ssa"
)

type FuncReport struct {
	Key         string
	Obls        []*Obligation
	Paths       int
	Havocs      []string
	Inlined     []string
	Assumed     []string
	Models      []string
	Unsupported string
	Trusted     bool
	TrustNote   string
	Decls       string
	SSAHash     string
	Warnings    []string
}

func (p *Program) resolveType(path string) types.Type {
	dot := strings.LastIndex(path, ".")
	if dot < 0 {
		return nil
	}
	sp := p.byPath[path[:dot]]
	if sp == nil {
		return nil
	}
	obj := sp.Pkg.Scope().Lookup(path[dot+1:])
	if obj == nil {
		return nil
	}
	return obj.Type()
}

// newUniv prepares the declarations shared by all functions: preludes and the Go types they need.
func newUnivFor(p *Program, cs *ContractSet) *Univ {
	u := NewUniv()
	// type tags: predicates and accessors over interface values
	for _, tt := range cs.TypeTags {
		tn := tt.Type
		ptr := strings.HasPrefix(tn, "*")
		tn = strings.TrimPrefix(tn, "*")
		if !strings.Contains(tn, "/") {
			tn = tt.Pkg + "." + tn
		} else if !strings.HasPrefix(tn, "github.com/") && !strings.Contains(strings.SplitN(tn, "/", 2)[0], ".") {
			tn = repoModule + "/" + tn
		}
		t := p.resolveType(tn)
		if t == nil {
			continue // package not loaded for this check
		}
		var boxed types.Type = t
		if ptr {
			boxed = types.NewPointer(t)
		}
		tag := u.BoxTag(boxed)
		srt := u.SortOf(t)
		u.Unbox(srt, "x")
		u.typeTagDefs = append(u.typeTagDefs, fmt.Sprintf("(define-fun %s ((m Iface)) Bool (= (iface.tag m) %d))\n(define-fun %s ((m Iface)) %s (unbox!%d m))", tt.Pred, tag, tt.Acc, srt, u.boxes[srt]))
		u.sigs[tt.Pred] = &FuncSig{Name: tt.Pred, Args: []string{"Iface"}, Ret: "Bool"}
		u.sigs[tt.Acc] = &FuncSig{Name: tt.Acc, Args: []string{"Iface"}, Ret: srt}
	}
	var pkgs []string
	for pkg := range cs.Preludes {
		pkgs = append(pkgs, pkg)
	}
	sort.Strings(pkgs)
	for _, pkg := range pkgs {
		for _, chunk := range cs.Preludes[pkg] {
			// a prelude whose Go types belong to packages that are not loaded for this check is skipped
			skip := false
			for _, line := range strings.Split(chunk, "\n") {
				l := strings.TrimSpace(line)
				for _, d := range []string{";;@ need-type ", ";;@ need-marshal "} {
					if strings.HasPrefix(l, d) {
						if p.resolveType(strings.TrimSpace(strings.TrimPrefix(l, d))) == nil {
							skip = true
						}
					}
				}
			}
			if skip {
				continue
			}
			for _, line := range strings.Split(chunk, "\n") {
				l := strings.TrimSpace(line)
				if strings.HasPrefix(l, ";;@ need-type ") {
					u.SortOf(p.resolveType(strings.TrimSpace(strings.TrimPrefix(l, ";;@ need-type "))))
				}
				if strings.HasPrefix(l, ";;@ need-marshal ") {
					u.MarshalFn(u.SortOf(p.resolveType(strings.TrimSpace(strings.TrimPrefix(l, ";;@ need-marshal ")))))
				}
			}
			u.AddPrelude(chunk)
		}
	}
	return u
}

// coverPaths: number of return paths per function that get a reachability cover (all of them in thorough mode)
var coverPaths = 3

func VerifyFunction(p *Program, cs *ContractSet, key string, ct *Contract, maxPaths int) (rep *FuncReport) {
	rep = &FuncReport{Key: key}
	fn := p.FindFunc(key)
	if fn == nil {
		rep.Unsupported = "function not found in the current source tree"
		return
	}
	rep.SSAHash = ssaHash(fn)
	if ct.Trusted {
		rep.Trusted = true
		rep.TrustNote = ct.TrustNote
		return
	}
	u := newUnivFor(p, cs)
	ex := &Exec{prog: p, u: u, cs: cs, fn: fn, ct: ct, inlined: map[string]bool{}, assumed: map[string]bool{}, models: map[string]bool{},
		callSeq: map[string]int{}, maxPaths: maxPaths, globFacts: map[string]bool{}, prune: os.Getenv("GOVC_NOPRUNE") == ""}
	defer func() {
		if r := recover(); r != nil {
			if ue, ok := r.(unsupportedErr); ok {
				rep.Unsupported = ue.msg
				rep.Obls = nil
				return
			}
			panic(r)
		}
	}()
	st := &State{cells: map[*Cell]string{}, ghost: map[string]string{}, cut: map[*ssa.BasicBlock]bool{}}
	ex.entrySt = st
	for _, gs := range cs.Ghosts {
		for _, g := range gs {
			if u.sortKnown(g.Sort) {
				st.ghost[g.Name] = u.Const("g0."+g.Name, g.Sort)
			}
		}
	}
	names := ex.paramNames(fn, ct)
	var args []Val
	for i, prm := range fn.Params {
		n := names[i]
		if n == "" || n == "_" {
			n = fmt.Sprintf("arg%d", i)
		}
		v := ex.paramVal0(prm.Type(), "in."+n, st)
		if isKVStore(prm.Type()) {
			// a store handed in as a parameter (migrations): it is the module store declared by the package's kvstore directive
			if kd, ok := cs.KVStores[fn.Pkg.Pkg.Path()]; ok {
				v = Val{Store: kd.Ghost}
			}
		}
		args = append(args, v)
	}
	// a function literal under contract: its captured variables are symbolic too (named as in the source)
	var bindings []Val
	for _, fv := range fn.FreeVars {
		bindings = append(bindings, ex.paramVal0(fv.Type(), "cap."+fv.Name(), st))
	}
	ex.inputs = append([]string(nil), collectInputs(u)...)
	// entry environment
	fr0 := &Frame{fn: fn, regs: map[ssa.Value]Val{}, top: true, ct: ct}
	for i, prm := range fn.Params {
		fr0.regs[prm] = args[i]
	}
	for i, fv := range fn.FreeVars {
		fr0.regs[fv] = bindings[i]
	}
	entry := ex.envFor(fr0, st)
	entry.old = entry
	ex.oldEnv = entry
	for _, cl := range ct.Requires {
		tv, err := entry.Translate(cl.E, "Bool")
		if err != nil {
			rep.Unsupported = fmt.Sprintf("requires: %v", err)
			return
		}
		st.assume(tv.T)
	}
	for _, cl := range ct.Assumes {
		tv, err := entry.Translate(cl.E, "Bool")
		if err != nil {
			rep.Unsupported = fmt.Sprintf("assume: %v", err)
			return
		}
		st.assume(tv.T)
	}
	for _, cl := range ct.Hints {
		tv, err := entry.Translate(cl.E, "Bool")
		if err != nil {
			rep.Unsupported = fmt.Sprintf("hint: %v", err)
			return
		}
		ex.addObl("hint", cl.Label, ct.Props, st, tv.T, fmt.Sprintf("%s:%d", cl.File, cl.Line), cl.Text)
		st.assume(tv.T)
	}
	if len(ct.NoPanicIf) > 0 {
		var conds []string
		for _, cl := range ct.NoPanicIf {
			tv, err := entry.Translate(cl.E, "Bool")
			if err != nil {
				rep.Unsupported = fmt.Sprintf("nopanic_if: %v", err)
				return
			}
			conds = append(conds, tv.T)
		}
		ex.noPanicCond = and(conds...)
	}
	ex.addCover("requires-satisfiable", st, "")
	outs := ex.run(fn, args, bindings, st.clone(), true, ct)
	rnames := resultNames(fn.Signature, ct)
	nret := 0
	for _, oc := range outs {
		nret++
		// vacuity guard: the path condition of every return must not be refutable
		if nret <= coverPaths {
			ex.addCover("some-return-path-reachable", oc.st, "")
		}
		frX := &Frame{fn: fn, regs: fr0.regs, top: true, ct: ct}
		env := ex.envFor(frX, oc.st)
		// parameters in postconditions denote entry values unless pointer (pointee: current)
		for i, r := range oc.results {
			rt := fn.Signature.Results().At(i).Type()
			env.vars[rnames[i]] = ex.valTV(r, rt, oc.st)
			if r.P != nil {
				env.vars[rnames[i]+"$isnil"] = TV{r.P.NilT, "Bool"}
			}
		}
		for _, cl := range ct.Ensures {
			if cl.Derived {
				continue
			}
			tv, err := env.Translate(cl.E, "Bool")
			if err != nil {
				rep.Unsupported = fmt.Sprintf("ensures %s: %v", cl.Label, err)
				rep.Obls = nil
				return
			}
			props := cl.Props
			if len(props) == 0 {
				props = ct.Props
			}
			ex.addObl("post", cl.Label, props, oc.st, tv.T, fmt.Sprintf("%s:%d", cl.File, cl.Line), cl.Text)
		}
		if ct.Pure {
			for g, t := range oc.st.ghost {
				if t != st.ghost[g] {
					ex.addObl("frame", "pure-"+g, ct.Props, oc.st, fmt.Sprintf("(= %s %s)", t, st.ghost[g]), "", "pure: ghost "+g+" unchanged")
				}
			}
		} else {
			// ghost variables outside the modifies clause must be unchanged
			mod := map[string]bool{}
			for _, m := range ct.Modifies {
				mod[m] = true
			}
			for g, t := range oc.st.ghost {
				if !mod[g] && t != st.ghost[g] {
					ex.addObl("frame", "modifies-"+g, ct.Props, oc.st, fmt.Sprintf("(= %s %s)", t, st.ghost[g]), "", "ghost "+g+" is not in the modifies clause")
				}
			}
		}
	}
	// derived postconditions: consequences of the requires and the other postconditions, proved once over an
	// arbitrary final state (fresh ghosts and results) instead of once per path in the full path context
	hasDerived := false
	for _, cl := range ct.Ensures {
		if cl.Derived {
			hasDerived = true
		}
	}
	if hasDerived {
		st2 := st.clone()
		if !ct.Pure {
			for _, g := range ct.Modifies {
				st2.ghost[g] = u.Fresh("final."+g, ex.ghostSort(g))
			}
		}
		frX := &Frame{fn: fn, regs: fr0.regs, top: true, ct: ct}
		env := ex.envFor(frX, st2)
		for i := 0; i < fn.Signature.Results().Len(); i++ {
			rt := fn.Signature.Results().At(i).Type()
			rv := ex.freshResult(rt, "final."+rnames[i], st2)
			env.vars[rnames[i]] = ex.valTV(rv, rt, st2)
			if rv.P != nil {
				env.vars[rnames[i]+"$isnil"] = TV{rv.P.NilT, "Bool"}
			}
		}
		for _, cl := range ct.Ensures {
			if cl.Derived {
				continue
			}
			tv, err := env.Translate(cl.E, "Bool")
			if err != nil {
				rep.Unsupported = fmt.Sprintf("ensures %s: %v", cl.Label, err)
				rep.Obls = nil
				return
			}
			st2.assume(tv.T)
		}
		for _, cl := range ct.Ensures {
			if !cl.Derived {
				continue
			}
			tv, err := env.Translate(cl.E, "Bool")
			if err != nil {
				rep.Unsupported = fmt.Sprintf("ensures %s: %v", cl.Label, err)
				rep.Obls = nil
				return
			}
			props := cl.Props
			if len(props) == 0 {
				props = ct.Props
			}
			ex.addObl("post", cl.Label, props, st2, tv.T, fmt.Sprintf("%s:%d", cl.File, cl.Line), "derived from the requires and the other postconditions: "+cl.Text)
		}
	}
	rep.Obls = ex.obls
	rep.Paths = ex.npaths
	rep.Havocs = uniq(ex.havocs)
	rep.Inlined = keys(ex.inlined)
	rep.Assumed = keys(ex.assumed)
	rep.Models = keys(ex.models)
	rep.Decls = u.Decls()
	rep.Warnings = ex.warnings
	for _, o := range rep.Obls {
		o.Decls = rep.Decls
	}
	return
}

// paramVal0 creates the symbolic value of a parameter.
func (ex *Exec) paramVal0(t types.Type, name string, st *State) Val {
	return ex.freshVal(t, name, st)
}

func collectInputs(u *Univ) []string {
	var out []string
	for _, c := range u.consts {
		// "(declare-const name sort)"
		f := strings.Fields(c)
		if len(f) >= 2 && strings.HasPrefix(f[1], "in.") {
			out = append(out, f[1])
		}
	}
	return out
}

func uniq(xs []string) []string {
	m := map[string]bool{}
	var out []string
	for _, x := range xs {
		if !m[x] {
			m[x] = true
			out = append(out, x)
		}
	}
	sort.Strings(out)
	return out
}

func keys(m map[string]bool) []string {
	var out []string
	for k := range m {
		out = append(out, k)
	}
	sort.Strings(out)
	return out
}

func ssaHash(fn *ssa.Function) string {
	var b strings.Builder
	fn.WriteTo(&b)
	return fmt.Sprintf("%x", fnv64(b.String()))
}

func fnv64(s string) uint64 {
	var h uint64 = 14695981039346656037
	for i := 0; i < len(s); i++ {
		h ^= uint64(s[i])
		h *= 1099511628211
	}
	return h
}

// VerifyLemma builds the obligations of a stand-alone lemma.  A scripted lemma is straight-line ghost
// code: vars (universally quantified inputs), call (a function under contract: its requires and
// ensures are assumed for fresh results - the ensures are proved separately against the body),
// assume, show.
func VerifyLemma(p *Program, cs *ContractSet, lm *Lemma) ([]*Obligation, []string, error) {
	u := newUnivFor(p, cs)
	env := &Env{u: u, vars: map[string]TV{}, bound: map[string]string{}, lets: map[string]*Expr{}}
	var used []string
	if lm.E != nil {
		tv, err := env.Translate(lm.E, "Bool")
		if err != nil {
			return nil, nil, err
		}
		o := &Obligation{Name: "lemma:" + lm.Name, Kind: "lemma", Props: lm.Props, Query: "(assert " + not(tv.T) + ")\n", Clause: lm.Text, Where: lm.File}
		o.Decls = u.Decls()
		return []*Obligation{o}, nil, nil
	}
	var pc []string
	var obls []*Obligation
	nshow := 0
	for _, st := range lm.Steps {
		switch st.Kind {
		case "vars":
			for _, v := range st.Vars {
				s, lo, hi := func() (a, b, c string) {
					defer func() {
						if r := recover(); r != nil {
							a = ""
						}
					}()
					return u.sortFromTypeName(v.Type)
				}()
				if s == "" {
					return nil, nil, fmt.Errorf("lemma %s: unknown type %s", lm.Name, v.Type)
				}
				c := u.Const("lv."+v.Name, s)
				env.vars[v.Name] = TV{c, s}
				if lo != "" {
					pc = append(pc, "(<= "+lo+" "+c+")")
				}
				if hi != "" {
					pc = append(pc, "(<= "+c+" "+hi+")")
				}
				if v.Type == "Addr" || v.Type == "Bytes" {
					pc = append(pc, fmt.Sprintf("(>= (sl.len %s) 0)", c))
					pc = append(pc, fmt.Sprintf("(forall ((i!w Int)) (! (and (<= 0 (select (sl.arr %s) i!w)) (<= (select (sl.arr %s) i!w) 255)) :pattern ((select (sl.arr %s) i!w))))", c, c, c))
				}
			}
		case "assume":
			tv, err := env.Translate(st.E, "Bool")
			if err != nil {
				return nil, nil, fmt.Errorf("lemma %s: %v", lm.Name, err)
			}
			pc = append(pc, tv.T)
		case "show":
			tv, err := env.Translate(st.E, "Bool")
			if err != nil {
				return nil, nil, fmt.Errorf("lemma %s: %v", lm.Name, err)
			}
			var b strings.Builder
			for _, a := range pc {
				b.WriteString("(assert " + a + ")\n")
			}
			b.WriteString("(assert " + not(tv.T) + ")\n")
			name := "lemma:" + lm.Name
			if nshow > 0 {
				name = fmt.Sprintf("lemma:%s.%d", lm.Name, nshow)
			}
			nshow++
			obls = append(obls, &Obligation{Name: name, Kind: "lemma", Props: lm.Props, Query: b.String(), Clause: st.Text, Where: fmt.Sprintf("%s:%d", lm.File, st.Line)})
			pc = append(pc, tv.T)
		case "use":
			ul := cs.LemmaByName(st.Callee)
			if ul == nil {
				return nil, nil, fmt.Errorf("lemma %s: unknown lemma %s", lm.Name, st.Callee)
			}
			// instantiate: (ranges and assumes)(args) ==> shows(args)
			uenv := &Env{u: u, vars: map[string]TV{}, bound: map[string]string{}, lets: map[string]*Expr{}}
			var hyp, concl []string
			ai := 0
			for _, us := range ul.Steps {
				switch us.Kind {
				case "vars":
					for _, v := range us.Vars {
						if ai >= len(st.Args) {
							return nil, nil, fmt.Errorf("lemma %s: too few arguments for %s", lm.Name, st.Callee)
						}
						s, lo, hi := u.sortFromTypeName(v.Type)
						tv, err := env.Translate(st.Args[ai], s)
						if err != nil {
							return nil, nil, fmt.Errorf("lemma %s: %v", lm.Name, err)
						}
						ai++
						uenv.vars[v.Name] = tv
						if lo != "" {
							hyp = append(hyp, "(<= "+lo+" "+tv.T+")")
						}
						if hi != "" {
							hyp = append(hyp, "(<= "+tv.T+" "+hi+")")
						}
					}
				case "assume":
					tv, err := uenv.Translate(us.E, "Bool")
					if err != nil {
						return nil, nil, fmt.Errorf("lemma %s: %v", lm.Name, err)
					}
					hyp = append(hyp, tv.T)
				case "show":
					tv, err := uenv.Translate(us.E, "Bool")
					if err != nil {
						return nil, nil, fmt.Errorf("lemma %s: %v", lm.Name, err)
					}
					concl = append(concl, tv.T)
				default:
					return nil, nil, fmt.Errorf("lemma %s: lemma %s cannot be used (it has %s steps)", lm.Name, st.Callee, us.Kind)
				}
			}
			pc = append(pc, implies(and(hyp...), and(concl...)))
			used = append(used, "lemma:"+st.Callee)
		case "call":
			key := resolveCallee(cs, lm.Pkg, st.Callee)
			ct := cs.ByKey[key]
			if ct == nil {
				return nil, nil, fmt.Errorf("lemma %s: no contract for %s", lm.Name, st.Callee)
			}
			fn := p.FindFunc(key)
			if fn == nil {
				return nil, nil, fmt.Errorf("lemma %s: function %s not found", lm.Name, key)
			}
			used = append(used, key)
			exn := &Exec{prog: p, u: u, cs: cs, fn: fn, ct: ct}
			names := exn.paramNames(fn, ct)
			if len(names) != len(st.Args) {
				return nil, nil, fmt.Errorf("lemma %s: %s takes %d arguments", lm.Name, st.Callee, len(names))
			}
			cenv := &Env{u: u, vars: map[string]TV{}, bound: map[string]string{}, lets: map[string]*Expr{}}
			for _, l := range ct.Lets {
				cenv.lets[l.Name] = l.E
			}
			for i, a := range st.Args {
				want := u.SortOf(fn.Params[i].Type())
				tv, err := env.Translate(a, want)
				if err != nil {
					return nil, nil, fmt.Errorf("lemma %s: %v", lm.Name, err)
				}
				if tv.S != want {
					return nil, nil, fmt.Errorf("lemma %s: argument %d of %s has sort %s, want %s", lm.Name, i+1, st.Callee, tv.S, want)
				}
				cenv.vars[names[i]] = tv
				pc = append(pc, u.WellTyped(fn.Params[i].Type(), tv.T, 0))
			}
			cenv.old = cenv
			for _, rq := range ct.Requires {
				tv, err := cenv.Translate(rq.E, "Bool")
				if err != nil {
					return nil, nil, fmt.Errorf("lemma %s: %v", lm.Name, err)
				}
				pc = append(pc, tv.T)
			}
			rn := resultNames(fn.Signature, ct)
			if len(rn) != len(st.Results) {
				return nil, nil, fmt.Errorf("lemma %s: %s has %d results", lm.Name, st.Callee, len(rn))
			}
			for i, r := range st.Results {
				rt := fn.Signature.Results().At(i).Type()
				s := u.SortOf(rt)
				c := u.Const("lv."+r, s)
				env.vars[r] = TV{c, s}
				cenv.vars[rn[i]] = TV{c, s}
				pc = append(pc, u.WellTyped(rt, c, 0))
			}
			for _, en := range ct.Ensures {
				tv, err := cenv.Translate(en.E, "Bool")
				if err != nil {
					return nil, nil, fmt.Errorf("lemma %s: %v", lm.Name, err)
				}
				pc = append(pc, tv.T)
			}
		}
	}
	d := u.Decls()
	for _, o := range obls {
		o.Decls = d
	}
	return obls, used, nil
}

func resolveCallee(cs *ContractSet, pkg, name string) string {
	if _, ok := cs.ByKey[pkg+"."+name]; ok {
		return pkg + "." + name
	}
	for k := range cs.ByKey {
		if strings.HasSuffix(k, "."+name) && strings.HasPrefix(k, pkg) {
			return k
		}
	}
	return pkg + "." + name
}

// SolveAll discharges obligations in parallel.
// noFailFast: the development command `verify` wants every obligation decided with the full time-out
var noFailFast bool

func SolveAll(obls []*Obligation, timeout time.Duration, needAll bool, workers int) {
	var wg sync.WaitGroup
	// once several obligations have failed the check is failing whatever the rest answers: the remaining obligations
	// then get a short time-out, so that a change which breaks many of them does not keep the check busy for an hour
	var failed int32
	const failFastAfter, failFastTimeout = 6, 15 * time.Second
	ch := make(chan *Obligation)
	for i := 0; i < workers; i++ {
		wg.Add(1)
		go func() {
			defer wg.Done()
			for o := range ch {
				if o.Trivial {
					o.Result = &SolverResult{Status: "unsat", Backend: "trivial"}
					continue
				}
				var gv []string
				if o.Expect != "sat" {
					gv = o.Inputs
				}
				to := timeout
				if o.Expect == "sat" && to > 2*time.Second {
					to = 2 * time.Second // covers only need "not refutable"
				}
				if o.Quick && to > 10*time.Second {
					to = 10 * time.Second
				}
				reduced := false
				if !noFailFast && atomic.LoadInt32(&failed) >= failFastAfter && to > failFastTimeout {
					to = failFastTimeout
					reduced = true
				}
				q := addUnfoldings(o.Decls, o.Query)
				r := Solve(sliceDecls(o.Decls, q)+q, gv, to, needAll && o.Expect != "sat")
				o.Result = &r
				if !o.OK() && !o.Quick {
					atomic.AddInt32(&failed, 1)
					if reduced && r.Status != "sat" {
						r.Output += fmt.Sprintf("\n(time-out reduced to %s after %d other obligations had failed)", failFastTimeout, failFastAfter)
					}
				}
			}
		}()
	}
	for _, o := range obls {
		ch <- o
	}
	close(ch)
	wg.Wait()
}

func (o *Obligation) OK() bool {
	if o.Result == nil {
		return false
	}
	if o.Expect == "sat" {
		// vacuity guard: the assumptions must not be refutable
		return o.Result.Status != "unsat" && o.Result.Status != "error"
	}
	return o.Result.Status == "unsat"
}

// sortKnown reports whether every sort symbol mentioned in a sort expression is declared.
func (u *Univ) sortKnown(sort string) bool {
	decl := u.declaredSorts()
	for _, tok := range strings.FieldsFunc(sort, func(r rune) bool { return r == '(' || r == ')' || r == ' ' }) {
		switch tok {
		case "Array", "Slice", "Opt", "Int", "Bool", "Str", "Iface", "Ref", "Fn", "Ctx", "Float", "SdkInt", "SdkDec", "Time", "BytesV":
			continue
		}
		if _, ok := u.structs[tok]; ok {
			continue
		}
		if decl[tok] {
			continue
		}
		return false
	}
	return true
}
