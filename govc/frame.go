package main

// Frame obligations decided on the SSA call graph (who may call / write what).

type FrameResult struct {
	Name   string
	What   string
	OK     bool
	Detail string
}

type FrameCheck struct {
	Name     string
	Props    []string
	Packages []string
	Run      func(p *Program, cs *ContractSet) []*FrameResult
}

var frameChecks []*FrameCheck

func frameChecksFor(prop string) []*FrameCheck {
	var out []*FrameCheck
	for _, f := range frameChecks {
		for _, p := range f.Props {
			if p == prop {
				out = append(out, f)
			}
		}
	}
	return out
}
