package main

import (
	"fmt"
	"go/ast"
	"go/constant"
	"go/types"
	"sort"
	"strings"
	"sync"

	"golang.org/x/tools/go/ssa"
	"golang.org/x/tools/go/ssa/ssautil"
)

// Frame obligations decided on the SSA of the whole repository: who may call, write or reach what.
// They complement the per-function contracts (which are path sensitive) with closed-world facts that a
// modular contract cannot state: "the only caller of X is Y", "nothing in these packages calls Z".

type FrameResult struct {
	Name   string
	What   string
	OK     bool
	Detail string
}

type FrameCheck struct {
	Name     string
	Props    []string
	Packages []string
	Run      func(p *Program, cs *ContractSet) []*FrameResult
}

const modPfx = repoModule + "/"

var consensusPkgs = []string{
	modPfx + "x/enterprise", modPfx + "x/enterprise/keeper", modPfx + "x/enterprise/ante", modPfx + "x/enterprise/types", modPfx + "x/enterprise/exported",
	modPfx + "x/wrkchain", modPfx + "x/wrkchain/keeper", modPfx + "x/wrkchain/ante", modPfx + "x/wrkchain/types", modPfx + "x/wrkchain/exported",
	modPfx + "x/beacon", modPfx + "x/beacon/keeper", modPfx + "x/beacon/ante", modPfx + "x/beacon/types", modPfx + "x/beacon/exported",
	modPfx + "x/stream", modPfx + "x/stream/keeper", modPfx + "x/stream/types",
	modPfx + "ante", modPfx + "app",
}

var keeperPkgs = []string{modPfx + "x/enterprise/keeper", modPfx + "x/wrkchain/keeper", modPfx + "x/beacon/keeper", modPfx + "x/stream/keeper"}

var frameChecks = []*FrameCheck{
	{Name: "no-nondeterminism", Props: []string{"C01"}, Packages: consensusPkgs, Run: frameNondeterminism},
	{Name: "no-package-level-writes", Props: []string{"C01", "C16"}, Packages: consensusPkgs, Run: frameGlobalWrites},
	{Name: "keepers-hold-no-memory-state", Props: []string{"C01", "C09", "C16"}, Packages: keeperPkgs, Run: frameKeeperFields},
	{Name: "mint-and-burn-call-sites", Props: []string{"C02"}, Packages: consensusPkgs, Run: frameMintBurn},
	{Name: "authority-and-keeper-wiring", Props: []string{"C13"}, Packages: consensusPkgs, Run: frameWiring},
	{Name: "escrow-accounts-blocked", Props: []string{"C04", "C10"}, Packages: []string{modPfx + "app"}, Run: frameBlocked},
	{Name: "queries-are-read-only", Props: []string{"C20", "C17"}, Packages: keeperPkgs, Run: frameReadOnlyQueries},
	{Name: "locked-efund-writers", Props: []string{"C05", "C04"}, Packages: consensusPkgs, Run: frameLockedWriters},
	{Name: "fee-decorators-are-read-only", Props: []string{"C14", "C06"}, Packages: consensusPkgs, Run: frameFeeDecoratorsReadOnly},
	{Name: "ante-chain-order", Props: []string{"C05", "C06"}, Packages: []string{modPfx + "ante"}, Run: frameAnteOrder},
	{Name: "module-entry-points-delegate", Props: []string{"C15", "C14", "C03"}, Packages: consensusPkgs, Run: frameModuleEntryPoints},
	{Name: "list-queries-hand-over-to-pagination", Props: []string{"C20"}, Packages: keeperPkgs, Run: frameListQueries},
	{Name: "store-reached-only-through-key-builders", Props: []string{"C18"}, Packages: keeperPkgs, Run: frameStoreKeys},
}

func frameChecksFor(prop string) []*FrameCheck {
	var out []*FrameCheck
	for _, f := range frameChecks {
		for _, p := range f.Props {
			if p == prop {
				out = append(out, f)
			}
		}
	}
	return out
}

// ---------------------------------------------------------------- helpers

func isTestOrTooling(fn *ssa.Function, p *Program) bool {
	if fn.Pkg == nil {
		return true
	}
	path := fn.Pkg.Pkg.Path()
	for _, seg := range []string{"/simulation", "/client", "/testutil", "/cmd/", "/migrate", "/legacy"} {
		if strings.Contains(path+"/", seg+"/") || strings.HasSuffix(path, seg) {
			return true
		}
	}
	pos := p.fset.Position(fn.Pos())
	if strings.HasSuffix(pos.Filename, "_test.go") || strings.HasSuffix(pos.Filename, ".pb.go") || strings.HasSuffix(pos.Filename, ".pb.gw.go") {
		return true
	}
	if strings.HasSuffix(pos.Filename, "module_simulation.go") || strings.HasSuffix(pos.Filename, "test_helpers.go") || strings.HasSuffix(pos.Filename, "test_common.go") {
		return true
	}
	return false
}

func repoFuncsIn(p *Program, pkgs []string) []*ssa.Function {
	want := map[string]bool{}
	for _, k := range pkgs {
		want[k] = true
	}
	var out []*ssa.Function
	for fn := range ssautil.AllFunctions(p.prog) {
		if fn.Pkg == nil || !want[fn.Pkg.Pkg.Path()] || len(fn.Blocks) == 0 {
			continue
		}
		if fn.Synthetic != "" && !strings.Contains(fn.Synthetic, "package initializer") {
			continue
		}
		if isTestOrTooling(fn, p) {
			continue
		}
		out = append(out, fn)
	}
	sort.Slice(out, func(i, j int) bool { return out[i].String() < out[j].String() })
	return out
}

type callSite struct {
	fn     *ssa.Function
	instr  ssa.Instruction
	callee string // static callee string or "(iface).Method" for invokes
	invoke bool
}

func callsOf(fn *ssa.Function) []callSite {
	var out []callSite
	for _, b := range fn.Blocks {
		for _, in := range b.Instrs {
			ci, ok := in.(ssa.CallInstruction)
			if !ok {
				continue
			}
			com := ci.Common()
			if com.IsInvoke() {
				out = append(out, callSite{fn, in, "(" + com.Value.Type().String() + ")." + com.Method.Name(), true})
			} else if c := com.StaticCallee(); c != nil {
				out = append(out, callSite{fn, in, c.String(), false})
			}
		}
	}
	return out
}

func posOf(p *Program, in ssa.Instruction) string {
	pos := p.fset.Position(in.Pos())
	return fmt.Sprintf("%s:%d", strings.TrimPrefix(pos.Filename, repoRoot+"/"), pos.Line)
}

func res(name, what string, bad []string) *FrameResult {
	sort.Strings(bad)
	if len(bad) == 0 {
		return &FrameResult{Name: "frame:" + name, What: what, OK: true, Detail: "holds"}
	}
	return &FrameResult{Name: "frame:" + name, What: what, OK: false, Detail: strings.Join(bad, "; ")}
}

// ---------------------------------------------------------------- C01

var deniedCalls = []string{"time.Now", "time.Since", "time.Until", "time.After", "time.Sleep", "time.NewTimer", "time.NewTicker", "time.Tick",
	"math/rand.", "crypto/rand.", "os.", "runtime.NumCPU", "runtime.GOMAXPROCS", "runtime.NumGoroutine", "net.", "net/http.", "(*math/rand.", "unsafe.",
	"reflect.MapKeys", "(reflect.Value).MapKeys", "(reflect.Value).MapRange", "os/exec.", "syscall."}

func isDenied(callee string) bool {
	for _, d := range deniedCalls {
		if strings.HasPrefix(callee, d) {
			return true
		}
	}
	return false
}

// frameAllow: sites that are allowed with a stated reason (checked elsewhere or harmless by construction).
var frameAllow = map[string]string{
	"msgServer).RecordBeaconTimestamp|time.Now":             "unreachable: the contract of RecordBeaconTimestamp requires msg.SubmitTime != 0 (ValidateBasic postcondition) and the executor proves the call infeasible (obligation frame:denied-call)",
	"app.BlockedAddresses|map-range":                        "builds a set; insertion order does not matter",
	"app.GetMaccPerms|map-range":                            "copies a map; order does not matter",
	"(*" + modPfx + "app.App).ModuleAccountAddrs|map-range": "builds a set; order does not matter",
	"ante.checkWrkChainMaxSlots|map-range":                  "returns an error of the same code whichever offending id is met first; no state change",
	"ante.checkBeaconMaxSlots|map-range":                    "returns an error of the same code whichever offending id is met first; no state change",
}

func allowed(fn *ssa.Function, what string) (string, bool) {
	for k, why := range frameAllow {
		parts := strings.SplitN(k, "|", 2)
		if parts[1] == what && strings.HasSuffix(fn.String(), parts[0]) {
			return why, true
		}
	}
	return "", false
}

func frameNondeterminism(p *Program, cs *ContractSet) []*FrameResult {
	var denied, conc, floats, mapRanges []string
	for _, fn := range repoFuncsIn(p, consensusPkgs) {
		if fn.Name() == "init" || strings.HasPrefix(fn.Name(), "init#") {
			continue
		}
		// app: only the consensus entry points and what they own; the rest of app.go is start-up wiring
		if fn.Pkg.Pkg.Path() == modPfx+"app" {
			n := fn.Name()
			if !(n == "BeginBlocker" || n == "EndBlocker" || n == "InitChainer" || n == "BlockedAddresses" || n == "ModuleAccountAddrs") {
				continue
			}
		}
		for _, c := range callsOf(fn) {
			if isDenied(c.callee) {
				short := c.callee
				if _, ok := allowed(fn, short); ok {
					continue
				}
				if onlyFeedsTelemetry(c.instr) {
					continue // the value is consumed by cosmos-sdk telemetry only (metrics, not state)
				}
				denied = append(denied, fmt.Sprintf("%s calls %s at %s", shortFn(fn.String()), c.callee, posOf(p, c.instr)))
			}
		}
		for _, b := range fn.Blocks {
			for _, in := range b.Instrs {
				switch x := in.(type) {
				case *ssa.Go, *ssa.Select, *ssa.Send, *ssa.MakeChan:
					conc = append(conc, fmt.Sprintf("%s uses %T at %s", shortFn(fn.String()), in, posOf(p, in)))
				case *ssa.BinOp:
					if bt, ok := x.X.Type().Underlying().(*types.Basic); ok && bt.Info()&types.IsFloat != 0 {
						floats = append(floats, fmt.Sprintf("%s: floating-point %s at %s", shortFn(fn.String()), x.Op, posOf(p, in)))
					}
				case *ssa.Convert:
					ft, _ := x.X.Type().Underlying().(*types.Basic)
					tt, _ := x.Type().Underlying().(*types.Basic)
					if (ft != nil && ft.Info()&types.IsFloat != 0) || (tt != nil && tt.Info()&types.IsFloat != 0) {
						if _, isConst := x.X.(*ssa.Const); !isConst {
							floats = append(floats, fmt.Sprintf("%s: floating-point conversion at %s", shortFn(fn.String()), posOf(p, in)))
						}
					}
				case *ssa.Range:
					if _, isMap := x.X.Type().Underlying().(*types.Map); isMap {
						if _, ok := allowed(fn, "map-range"); !ok {
							mapRanges = append(mapRanges, fmt.Sprintf("%s ranges over a map at %s", shortFn(fn.String()), posOf(p, in)))
						} else {
							// an allowed map range must stay free of order-dependent effects: nothing inside the loop may take
							// the sdk.Context (store access, gas, events) or call through a keeper interface
							for _, bad := range mapLoopEffects(p, fn, x) {
								mapRanges = append(mapRanges, bad)
							}
						}
					}
				}
			}
		}
	}
	return []*FrameResult{
		res("C01.no-wall-clock-randomness-os", "no call to wall clock, randomness, OS, network, reflection-over-maps from consensus code", denied),
		res("C01.no-goroutines-channels", "no goroutine, select or channel operation in consensus code", conc),
		res("C01.no-floating-point", "no floating-point instruction in consensus code", floats),
		res("C01.map-iteration-order-insensitive", "every range over a map is on the stated allow list (order-insensitive by construction)", mapRanges),
	}
}

func frameGlobalWrites(p *Program, cs *ContractSet) []*FrameResult {
	var bad []string
	for _, fn := range repoFuncsIn(p, consensusPkgs) {
		if fn.Name() == "init" || strings.HasPrefix(fn.Name(), "init#") {
			continue
		}
		for _, b := range fn.Blocks {
			for _, in := range b.Instrs {
				if s, ok := in.(*ssa.Store); ok {
					if g, ok := s.Addr.(*ssa.Global); ok {
						bad = append(bad, fmt.Sprintf("%s stores to %s at %s", shortFn(fn.String()), g.Name(), posOf(p, in)))
					}
				}
			}
		}
	}
	return []*FrameResult{res("no-store-to-package-level-variable", "no function outside package initialisers assigns a package-level variable (no hidden state, constants of contracts stay constant)", bad)}
}

func frameKeeperFields(p *Program, cs *ContractSet) []*FrameResult {
	var bad []string
	for _, pk := range keeperPkgs {
		sp := p.byPath[pk]
		if sp == nil {
			continue
		}
		obj := sp.Pkg.Scope().Lookup("Keeper")
		if obj == nil {
			bad = append(bad, pk+": no Keeper type")
			continue
		}
		st, ok := obj.Type().Underlying().(*types.Struct)
		if !ok {
			continue
		}
		for i := 0; i < st.NumFields(); i++ {
			f := st.Field(i)
			switch f.Type().Underlying().(type) {
			case *types.Map, *types.Slice, *types.Chan, *types.Pointer, *types.Array:
				bad = append(bad, fmt.Sprintf("%s.Keeper.%s has type %s (in-memory state outside the store)", shortPkg(pk), f.Name(), f.Type()))
			}
		}
	}
	return []*FrameResult{res("keeper-fields-immutable-handles", "keeper structs hold only store keys, codecs, other keepers and strings: no map, slice, pointer or channel field that could carry state outside the revertible store", bad)}
}

// ---------------------------------------------------------------- C02

func frameMintBurn(p *Program, cs *ContractSet) []*FrameResult {
	var badMint, badBurn, badIface []string
	all := repoFuncsIn(p, allRepoPkgs(p))
	for _, fn := range all {
		for _, c := range callsOf(fn) {
			if strings.HasSuffix(c.callee, ").MintCoins") || strings.HasSuffix(c.callee, ".MintCoins") {
				frameContracts = cs
				if !toleratedCaller(p, fn, func(n string) bool { return strings.HasSuffix(n, "x/enterprise/keeper.Keeper).MintCoinsAndLock") }, 0) {
					badMint = append(badMint, fmt.Sprintf("%s calls %s at %s", shortFn(fn.String()), c.callee, posOf(p, c.instr)))
				}
			}
			if strings.Contains(c.callee, ").BurnCoins") || strings.HasSuffix(c.callee, ".BurnCoins") {
				badBurn = append(badBurn, fmt.Sprintf("%s calls %s at %s", shortFn(fn.String()), c.callee, posOf(p, c.instr)))
			}
		}
	}
	// keeper interfaces of the other modules must not even offer mint/burn
	for _, pk := range []string{modPfx + "x/stream/types", modPfx + "x/wrkchain/ante", modPfx + "x/beacon/ante", modPfx + "ante", modPfx + "x/enterprise/ante"} {
		sp := p.byPath[pk]
		if sp == nil {
			continue
		}
		for _, name := range sp.Pkg.Scope().Names() {
			it, ok := sp.Pkg.Scope().Lookup(name).Type().Underlying().(*types.Interface)
			if !ok {
				continue
			}
			for i := 0; i < it.NumMethods(); i++ {
				m := it.Method(i).Name()
				if m == "MintCoins" || m == "BurnCoins" {
					badIface = append(badIface, fmt.Sprintf("%s.%s offers %s", shortPkg(pk), name, m))
				}
			}
		}
	}
	return []*FrameResult{
		res("mint-only-in-MintCoinsAndLock", "the only call of MintCoins in non-test code is in enterprise Keeper.MintCoinsAndLock", badMint),
		res("no-burn", "no call of BurnCoins anywhere in the repository", badBurn),
		res("other-modules-cannot-mint", "the bank-keeper interfaces of stream, wrkchain/beacon ante, ante and enterprise ante contain neither MintCoins nor BurnCoins", badIface),
	}
}

func allRepoPkgs(p *Program) []string {
	var out []string
	for path := range p.byPath {
		if strings.HasPrefix(path, repoModule) {
			out = append(out, path)
		}
	}
	return out
}

// ---------------------------------------------------------------- C13 wiring

// traceModuleAddress: is v the string of authtypes.NewModuleAddress(<const name>)?
func traceModuleAddressString(v ssa.Value) (string, bool) {
	call, ok := v.(*ssa.Call)
	if !ok {
		return "", false
	}
	c := call.Common().StaticCallee()
	if c == nil || !strings.HasSuffix(c.String(), "types.AccAddress).String") {
		return "", false
	}
	inner, ok := call.Common().Args[0].(*ssa.Call)
	if !ok {
		return "", false
	}
	ic := inner.Common().StaticCallee()
	if ic == nil || !strings.HasSuffix(ic.String(), "x/auth/types.NewModuleAddress") {
		return "", false
	}
	k, ok := inner.Common().Args[0].(*ssa.Const)
	if !ok || k.Value == nil || k.Value.Kind() != constant.String {
		return "", false
	}
	return constant.StringVal(k.Value), true
}

func frameWiring(p *Program, cs *ContractSet) []*FrameResult {
	var badAuth, badImpl, badFee []string
	found := map[string]bool{}
	for _, fn := range repoFuncsIn(p, []string{modPfx + "app"}) {
		for _, c := range callsOf(fn) {
			for _, m := range []string{"enterprise", "wrkchain", "beacon", "stream"} {
				if c.callee == modPfx+"x/"+m+"/keeper.NewKeeper" {
					found[m] = true
					args := c.instr.(ssa.CallInstruction).Common().Args
					last := args[len(args)-1]
					name, ok := traceModuleAddressString(last)
					if !ok || name != "gov" {
						badAuth = append(badAuth, fmt.Sprintf("%s keeper authority at %s is not NewModuleAddress(\"gov\").String()", m, posOf(p, c.instr)))
					}
					if m == "stream" {
						fc, ok := args[4].(*ssa.Const)
						if !ok || fc.Value == nil || constant.StringVal(fc.Value) != "fee_collector" {
							badFee = append(badFee, "stream keeper fee collector name is not the constant \"fee_collector\" at "+posOf(p, c.instr))
						}
					}
				}
			}
		}
	}
	for _, m := range []string{"enterprise", "wrkchain", "beacon", "stream"} {
		if !found[m] {
			badAuth = append(badAuth, "no NewKeeper call for "+m+" found in app")
		}
	}
	// interface -> concrete keeper assumed by the contracts (`implements`) must match every conversion in non-test code
	for fn := range ssautil.AllFunctions(p.prog) {
		if fn.Pkg == nil || !p.isRepoPkg(fn.Pkg.Pkg.Path()) || isTestOrTooling(fn, p) {
			continue
		}
		for _, b := range fn.Blocks {
			for _, in := range b.Instrs {
				mi, ok := in.(*ssa.MakeInterface)
				if !ok {
					continue
				}
				want, has := cs.Impls[mi.Type().String()]
				if has && mi.X.Type().String() != want {
					badImpl = append(badImpl, fmt.Sprintf("%s converts %s to %s at %s (contracts assume %s)", shortFn(fn.String()), mi.X.Type(), mi.Type(), posOf(p, in), want))
				}
			}
		}
	}
	return []*FrameResult{
		res("authority-is-gov-module", "all four NewKeeper calls in app receive authtypes.NewModuleAddress(\"gov\").String() as authority", badAuth),
		res("stream-fee-collector-name", "the stream keeper's fee collector is the fee_collector module (distinct from the stream escrow)", badFee),
		res("interface-implementations-as-assumed", "every conversion to a keeper interface named in an `implements` directive uses the concrete keeper the contracts assume", badImpl),
	}
}

// ---------------------------------------------------------------- C04 / C10 blocked escrow accounts

func frameBlocked(p *Program, cs *ContractSet) []*FrameResult {
	var bad []string
	sp := p.byPath[modPfx+"app"]
	if sp == nil {
		return []*FrameResult{res("escrow-accounts-blocked", "app package loaded", []string{"app package not loaded"})}
	}
	// maccPerms keys from the package initialiser
	keys := map[string]bool{}
	if initFn := sp.Func("init"); initFn != nil {
		for _, b := range initFn.Blocks {
			for _, in := range b.Instrs {
				if mu, ok := in.(*ssa.MapUpdate); ok {
					if k, ok := mu.Key.(*ssa.Const); ok && k.Value != nil && k.Value.Kind() == constant.String {
						// the map being built must flow into maccPerms
						keys[constant.StringVal(k.Value)] = true
					}
				}
			}
		}
	}
	for _, need := range []string{"enterprise", "stream"} {
		if !keys[need] {
			bad = append(bad, "module account "+need+" is not a key of a map literal in app's initialiser (maccPerms)")
		}
	}
	fn := sp.Func("BlockedAddresses")
	if fn == nil {
		bad = append(bad, "app.BlockedAddresses not found")
	} else {
		ranged := false
		for _, b := range fn.Blocks {
			for _, in := range b.Instrs {
				switch x := in.(type) {
				case *ssa.Range:
					if u, ok := x.X.(*ssa.UnOp); ok {
						if g, ok := u.X.(*ssa.Global); ok && g.Name() == "maccPerms" {
							ranged = true
						}
					}
					if c, ok := x.X.(*ssa.Call); ok {
						if sc := c.Common().StaticCallee(); sc != nil && sc.String() == modPfx+"app.GetMaccPerms" && copiesAllOfMaccPerms(sc) {
							ranged = true
						}
					}
				case *ssa.Call:
					if bi, ok := x.Common().Value.(*ssa.Builtin); ok && bi.Name() == "delete" {
						name, ok := traceModuleAddressString(x.Common().Args[1])
						if !ok || name != "gov" {
							bad = append(bad, "BlockedAddresses deletes an entry other than the gov module account at "+posOf(p, in))
						}
					}
				}
			}
		}
		if !ranged {
			// the other accepted shape: an explicit list that names both escrow accounts
			listed := map[string]bool{}
			for _, b := range fn.Blocks {
				for _, in := range b.Instrs {
					if mu, ok := in.(*ssa.MapUpdate); ok {
						if name, ok := traceModuleAddressString(mu.Key); ok {
							if c, isConst := mu.Value.(*ssa.Const); isConst && c.Value != nil && c.Value.Kind() == constant.Bool && constant.BoolVal(c.Value) {
								listed[name] = true
							}
						}
					}
				}
			}
			for _, need := range []string{"enterprise", "stream"} {
				if !listed[need] {
					bad = append(bad, "BlockedAddresses neither ranges over maccPerms nor lists the "+need+" module account explicitly")
				}
			}
		}
	}
	// the bank keeper must be given BlockedAddresses()
	okBank := false
	for _, f := range repoFuncsIn(p, []string{modPfx + "app"}) {
		for _, c := range callsOf(f) {
			if strings.HasSuffix(c.callee, "x/bank/keeper.NewBaseKeeper") {
				for _, a := range c.instr.(ssa.CallInstruction).Common().Args {
					if call, ok := a.(*ssa.Call); ok {
						if sc := call.Common().StaticCallee(); sc != nil && sc.String() == modPfx+"app.BlockedAddresses" {
							okBank = true
						}
					}
				}
			}
		}
	}
	if !okBank {
		bad = append(bad, "bank keeper is not constructed with app.BlockedAddresses()")
	}
	return []*FrameResult{res("escrow-accounts-blocked", "the enterprise and stream module accounts are module accounts (maccPerms), BlockedAddresses blocks every module account except gov, and the bank keeper is built with it: user transfers cannot credit the escrows", bad)}
}

// ---------------------------------------------------------------- C20 / C17 read-only queries

func storeWriters(p *Program) map[string]bool {
	// functions that (transitively, through static calls inside the repository) write a KVStore or call the bank's mutators
	direct := map[string]bool{}
	calls := map[string][]string{}
	for fn := range ssautil.AllFunctions(p.prog) {
		if fn.Pkg == nil || !p.isRepoPkg(fn.Pkg.Pkg.Path()) || len(fn.Blocks) == 0 {
			continue
		}
		for _, c := range callsOf(fn) {
			if c.invoke {
				parts := strings.Split(c.callee, ").")
				m := parts[len(parts)-1]
				if strings.Contains(c.callee, "KVStore") && (m == "Set" || m == "Delete") {
					direct[fn.String()] = true
				}
				// calls through a keeper interface declared by a module (WrkchainKeeper, EnterpriseKeeper ...) reach the
				// concrete keepers wired in app.go: follow them into every keeper that has a method of that name
				if strings.Contains(c.callee, modPfx) && strings.Contains(c.callee, "Keeper") {
					for _, kp := range keeperPkgs {
						calls[fn.String()] = append(calls[fn.String()], "("+kp+".Keeper)."+m)
					}
				}
				if strings.Contains(c.callee, "BankKeeper") && (strings.HasPrefix(m, "Send") || strings.HasPrefix(m, "Mint") || strings.HasPrefix(m, "Burn") || strings.HasPrefix(m, "Delegate") || strings.HasPrefix(m, "Undelegate")) {
					direct[fn.String()] = true
				}
			} else {
				calls[fn.String()] = append(calls[fn.String()], c.callee)
			}
		}
		for _, af := range fn.AnonFuncs {
			calls[fn.String()] = append(calls[fn.String()], af.String())
		}
	}
	w := map[string]bool{}
	for k := range direct {
		w[k] = true
	}
	for changed := true; changed; {
		changed = false
		for f, cs := range calls {
			if w[f] {
				continue
			}
			for _, c := range cs {
				if w[c] {
					w[f] = true
					changed = true
					break
				}
			}
		}
	}
	return w
}

func frameReadOnlyQueries(p *Program, cs *ContractSet) []*FrameResult {
	w := storeWriters(p)
	var bad []string
	n := 0
	for _, fn := range repoFuncsIn(p, keeperPkgs) {
		pos := p.fset.Position(fn.Pos())
		base := pos.Filename[strings.LastIndex(pos.Filename, "/")+1:]
		if !(strings.HasPrefix(base, "grpc_query") || strings.HasPrefix(base, "query") || strings.HasPrefix(base, "legacy_querier")) {
			continue
		}
		n++
		if w[fn.String()] {
			bad = append(bad, fmt.Sprintf("%s (in %s) can reach a store or bank write", shortFn(fn.String()), base))
		}
	}
	if n == 0 {
		bad = append(bad, "no query handler found")
	}
	return []*FrameResult{res("query-handlers-never-write", fmt.Sprintf("none of the %d functions in the grpc_query/query/legacy_querier files of the four keepers can reach KVStore.Set/Delete or a bank mutator through static calls", n), bad)}
}

// ---------------------------------------------------------------- C05 / C04 writers of the locked-eFUND books

func callersOf(p *Program, suffix string) []string {
	var out []string
	for fn := range ssautil.AllFunctions(p.prog) {
		if fn.Pkg == nil || !p.isRepoPkg(fn.Pkg.Pkg.Path()) || isTestOrTooling(fn, p) {
			continue
		}
		for _, c := range callsOf(fn) {
			if strings.HasSuffix(c.callee, suffix) {
				out = append(out, shortFn(fn.String()))
			}
		}
	}
	sort.Strings(out)
	return uniq(out)
}

// expectCallers: every caller of callee is one of the allowed functions - or an unexported helper without a contract
// of its own all of whose callers are (transitively) allowed: such a helper is executed as part of its callers, so
// extracting one does not open a new way to the callee.
var frameContracts *ContractSet // set by the frame family entry points

func callerFuncsOf(p *Program, suffix string) []*ssa.Function {
	var out []*ssa.Function
	for fn := range ssautil.AllFunctions(p.prog) {
		if fn.Pkg == nil || !p.isRepoPkg(fn.Pkg.Pkg.Path()) || isTestOrTooling(fn, p) {
			continue
		}
		for _, c := range callsOf(fn) {
			if strings.HasSuffix(c.callee, suffix) {
				out = append(out, fn)
				break
			}
		}
	}
	sort.Slice(out, func(i, j int) bool { return out[i].String() < out[j].String() })
	return out
}

func expectCallers(p *Program, callee string, allowed ...string) []string {
	var bad []string
	isAllowed := func(name string) bool {
		for _, a := range allowed {
			if strings.HasSuffix(name, a) {
				return true
			}
		}
		return false
	}
	for _, c := range callerFuncsOf(p, callee) {
		if !toleratedCaller(p, c, isAllowed, 0) {
			bad = append(bad, shortFn(c.String())+" calls "+callee)
		}
	}
	return uniq(bad)
}

func toleratedCaller(p *Program, fn *ssa.Function, isAllowed func(string) bool, depth int) bool {
	if isAllowed(shortFn(fn.String())) {
		return true
	}
	if depth > 4 || frameContracts == nil || frameContracts.Lookup(fn.String()) != nil || fn.Parent() != nil {
		return false
	}
	if ast.IsExported(fn.Name()) {
		return false
	}
	cs := callerFuncsOf(p, fn.String())
	if len(cs) == 0 {
		return false
	}
	for _, c := range cs {
		if c != fn && !toleratedCaller(p, c, isAllowed, depth+1) {
			return false
		}
	}
	return true
}

func frameLockedWriters(p *Program, cs *ContractSet) []*FrameResult {
	var bad []string
	frameContracts = cs
	bad = append(bad, expectCallers(p, ").UnlockCoinsForFees", "CheckLockedUndDecorator).AnteHandle")...)
	bad = append(bad, expectCallers(p, "Keeper).decrementLockedUnd", "Keeper).UnlockCoinsForFees")...)
	bad = append(bad, expectCallers(p, "Keeper).incrementSpentEFUND", "Keeper).UnlockCoinsForFees")...)
	bad = append(bad, expectCallers(p, "Keeper).incrementLockedUnd", "Keeper).MintCoinsAndLock")...)
	bad = append(bad, expectCallers(p, "Keeper).MintCoinsAndLock", "Keeper).ProcessAcceptedPurchaseOrders")...)
	bad = append(bad, expectCallers(p, "Keeper).SetLockedUndForAccount", "Keeper).incrementLockedUnd", "Keeper).decrementLockedUnd", "enterprise.InitGenesis")...)
	bad = append(bad, expectCallers(p, "Keeper).SetTotalLockedUnd", "Keeper).incrementLockedUnd", "Keeper).decrementLockedUnd", "enterprise.InitGenesis")...)
	bad = append(bad, expectCallers(p, "Keeper).SetSpentEFUNDForAccount", "Keeper).incrementSpentEFUND", "enterprise.InitGenesis")...)
	bad = append(bad, expectCallers(p, "Keeper).SetTotalSpentEFUND", "Keeper).incrementSpentEFUND", "enterprise.InitGenesis")...)
	bad = append(bad, expectCallers(p, "Keeper).ProcessAcceptedPurchaseOrders", "enterprise.BeginBlocker")...)
	return []*FrameResult{res("locked-efund-books-writers", "the locked/spent eFUND books are written only along BeginBlocker -> ProcessAcceptedPurchaseOrders -> MintCoinsAndLock -> incrementLockedUnd and AnteHandle -> UnlockCoinsForFees -> decrement/incrementSpent (plus InitGenesis)", bad)}
}

// ---------------------------------------------------------------- C18: the store is addressed only through the key builders

func frameStoreKeys(p *Program, cs *ContractSet) []*FrameResult {
	var bad []string
	for _, fn := range repoFuncsIn(p, keeperPkgs) {
		for _, b := range fn.Blocks {
			for _, in := range b.Instrs {
				call, ok := in.(ssa.CallInstruction)
				if !ok || !call.Common().IsInvoke() {
					continue
				}
				com := call.Common()
				if !strings.Contains(com.Value.Type().String(), "KVStore") {
					continue
				}
				m := com.Method.Name()
				if m != "Get" && m != "Has" && m != "Set" && m != "Delete" {
					continue
				}
				if !keyFromBuilder(com.Args[0]) {
					bad = append(bad, fmt.Sprintf("%s: store.%s key at %s is not the result of a types key builder or a types prefix variable", shortFn(fn.String()), m, posOf(p, in)))
				}
			}
		}
	}
	return []*FrameResult{res("store-keys-come-from-key-builders", "every KVStore Get/Has/Set/Delete in the four keepers uses a key that is directly the result of a x/<module>/types key builder or one of its key variables", bad)}
}

func keyFromBuilder(v ssa.Value) bool {
	switch x := v.(type) {
	case *ssa.Call:
		if c := x.Common().StaticCallee(); c != nil && c.Pkg != nil {
			return strings.HasSuffix(c.Pkg.Pkg.Path(), "/types") && strings.HasPrefix(c.Pkg.Pkg.Path(), repoModule)
		}
	case *ssa.UnOp:
		if g, ok := x.X.(*ssa.Global); ok {
			return strings.HasSuffix(g.Pkg.Pkg.Path(), "/types") && strings.HasPrefix(g.Pkg.Pkg.Path(), repoModule)
		}
	case *ssa.Phi:
		for _, e := range x.Edges {
			if !keyFromBuilder(e) {
				return false
			}
		}
		return true
	case *ssa.ChangeType:
		return keyFromBuilder(x.X)
	}
	return false
}

// onlyFeedsTelemetry: the result of the call is used solely as an argument of telemetry.* calls.
func onlyFeedsTelemetry(in ssa.Instruction) bool {
	v, ok := in.(ssa.Value)
	if !ok {
		return false
	}
	refs := v.Referrers()
	if refs == nil || len(*refs) == 0 {
		return false
	}
	for _, r := range *refs {
		if _, dbg := r.(*ssa.DebugRef); dbg {
			continue
		}
		ci, ok := r.(ssa.CallInstruction)
		if !ok {
			return false
		}
		c := ci.Common().StaticCallee()
		if c == nil || c.Pkg == nil || c.Pkg.Pkg.Path() != "github.com/cosmos/cosmos-sdk/telemetry" {
			return false
		}
	}
	return true
}

// copiesAllOfMaccPerms: the function ranges over the global maccPerms and stores every visited key into the map it returns.
func copiesAllOfMaccPerms(fn *ssa.Function) bool {
	ranges, updates := false, false
	for _, b := range fn.Blocks {
		for _, in := range b.Instrs {
			switch x := in.(type) {
			case *ssa.Range:
				if u, ok := x.X.(*ssa.UnOp); ok {
					if g, ok := u.X.(*ssa.Global); ok && g.Name() == "maccPerms" {
						ranges = true
					}
				}
			case *ssa.MapUpdate:
				if e, ok := x.Key.(*ssa.Extract); ok {
					if _, ok := e.Tuple.(*ssa.Next); ok && e.Index == 1 {
						updates = true
					}
				}
			}
		}
	}
	return ranges && updates
}

// mapLoopEffects lists the calls inside the loop driven by the map iterator rng that could make the visiting
// order observable (gas, store reads and writes, events all need the sdk.Context; keepers are reached through interfaces).
func mapLoopEffects(p *Program, fn *ssa.Function, rng *ssa.Range) []string {
	li := findLoops(fn)
	var header *ssa.BasicBlock
	for h := range li.headers {
		for _, in := range h.Instrs {
			if nx, ok := in.(*ssa.Next); ok && nx.Iter == rng {
				header = h
			}
		}
	}
	if header == nil {
		return []string{fmt.Sprintf("%s: loop of the map range at %s not found", shortFn(fn.String()), posOf(p, rng))}
	}
	var bad []string
	for b := range li.body[header] {
		for _, in := range b.Instrs {
			ci, ok := in.(ssa.CallInstruction)
			if !ok {
				continue
			}
			com := ci.Common()
			if com.IsInvoke() {
				if com.Method.Name() == "Error" && len(com.Args) == 0 {
					continue
				}
				bad = append(bad, fmt.Sprintf("%s calls %s.%s inside a map range at %s (visiting order would become observable through gas/state)", shortFn(fn.String()), shortFn(com.Value.Type().String()), com.Method.Name(), posOf(p, in)))
				continue
			}
			for _, a := range com.Args {
				if strings.HasSuffix(a.Type().String(), "cosmos-sdk/types.Context") {
					bad = append(bad, fmt.Sprintf("%s passes the sdk.Context to a call inside a map range at %s", shortFn(fn.String()), posOf(p, in)))
				}
			}
		}
	}
	sort.Strings(bad)
	return bad
}

// The WRKChain and BEACON fee decorators only check: a transaction they reject, or that fails later, must not have
// changed module state through them (C14).  (The enterprise decorator does write - the fee unlock - and is under contract.)
func frameFeeDecoratorsReadOnly(p *Program, cs *ContractSet) []*FrameResult {
	w := storeWriters(p)
	var bad []string
	n := 0
	for _, fn := range repoFuncsIn(p, []string{modPfx + "x/wrkchain/ante", modPfx + "x/beacon/ante", modPfx + "x/wrkchain/exported", modPfx + "x/beacon/exported"}) {
		n++
		if w[fn.String()] {
			bad = append(bad, fmt.Sprintf("%s can reach a store or bank write", shortFn(fn.String())))
		}
	}
	if n == 0 {
		bad = append(bad, "no fee decorator function found")
	}
	return []*FrameResult{res("fee-decorators-never-write", fmt.Sprintf("none of the %d functions of the wrkchain/beacon ante and exported packages can reach KVStore.Set/Delete or a bank mutator, through static calls or keeper interfaces", n), bad)}
}

// The composition argument of C05/C06 needs the decorators in this order: message validation, then the two fee checks,
// then the fee unlock, then the SDK's fee deduction (which fails when the payer cannot cover the fee), then signature
// verification.  Read off the slice literal in ante.NewAnteHandler.
func frameAnteOrder(p *Program, cs *ContractSet) []*FrameResult {
	sp := p.byPath[modPfx+"ante"]
	if sp == nil {
		return []*FrameResult{res("ante-chain-order", "ante package loaded", []string{"ante package not loaded"})}
	}
	fn := sp.Func("NewAnteHandler")
	if fn == nil {
		return []*FrameResult{res("ante-chain-order", "ante.NewAnteHandler exists", []string{"ante.NewAnteHandler not found"})}
	}
	pos := map[string]int{}
	dup := []string{}
	for _, b := range fn.Blocks {
		for _, in := range b.Instrs {
			st, ok := in.(*ssa.Store)
			if !ok {
				continue
			}
			ia, ok := st.Addr.(*ssa.IndexAddr)
			if !ok {
				continue
			}
			c, ok := ia.Index.(*ssa.Const)
			if !ok || c.Value == nil {
				continue
			}
			idx, _ := constant.Int64Val(c.Value)
			v := st.Val
			if mi, ok := v.(*ssa.MakeInterface); ok {
				v = mi.X
			}
			call, ok := v.(*ssa.Call)
			if !ok {
				continue
			}
			sc := call.Common().StaticCallee()
			if sc == nil {
				continue
			}
			name := sc.Name()
			if _, seen := pos[name]; seen {
				dup = append(dup, name+" appears twice in the decorator list")
			}
			pos[name] = int(idx)
		}
	}
	var bad []string
	bad = append(bad, dup...)
	need := []string{"NewValidateBasicDecorator", "NewCorrectWrkChainFeeDecorator", "NewCorrectBeaconFeeDecorator", "NewCheckLockedUndDecorator", "NewDeductFeeDecorator", "NewSigVerificationDecorator"}
	for _, n := range need {
		if _, ok := pos[n]; !ok {
			bad = append(bad, n+" is not in the decorator list of ante.NewAnteHandler")
		}
	}
	before := func(a, b string) {
		pa, oka := pos[a]
		pb, okb := pos[b]
		if oka && okb && !(pa < pb) {
			bad = append(bad, fmt.Sprintf("%s (position %d) must come before %s (position %d)", a, pa, b, pb))
		}
	}
	before("NewValidateBasicDecorator", "NewCorrectWrkChainFeeDecorator")
	before("NewValidateBasicDecorator", "NewCorrectBeaconFeeDecorator")
	before("NewCorrectWrkChainFeeDecorator", "NewCheckLockedUndDecorator")
	before("NewCorrectBeaconFeeDecorator", "NewCheckLockedUndDecorator")
	before("NewCheckLockedUndDecorator", "NewDeductFeeDecorator")
	return []*FrameResult{res("ante-chain-order", "in ante.NewAnteHandler message validation precedes the WRKChain and BEACON fee decorators, both precede the locked-eFUND unlock, and the unlock precedes the SDK fee deduction; signature verification is in the chain", bad)}
}

// mayChangeState: can the repository function fn (transitively: static calls, closures, keeper interfaces) reach a
// KVStore write, a bank mutator, or any function whose contract has a modifies clause?  Returns the reason, or "".
// Used for calls of repository helpers that have no contract and are too large to execute from their body.
var (
	mcsMu    sync.Mutex
	mcsCache = map[*ssa.Function]string{}
)

func (p *Program) mayChangeState(fn *ssa.Function, cs *ContractSet) string {
	mcsMu.Lock()
	defer mcsMu.Unlock()
	if r, ok := mcsCache[fn]; ok {
		return r
	}
	seen := map[*ssa.Function]bool{}
	var visit func(f *ssa.Function) string
	visit = func(f *ssa.Function) string {
		if seen[f] {
			return ""
		}
		seen[f] = true
		if len(f.Blocks) == 0 {
			return "calls " + shortFn(f.String()) + ", which has no body"
		}
		for _, c := range callsOf(f) {
			keys := []string{c.callee}
			if c.invoke {
				parts := strings.Split(c.callee, ").")
				m := parts[len(parts)-1]
				if strings.Contains(c.callee, "KVStore") && (m == "Set" || m == "Delete") {
					return "reaches a store write in " + shortFn(f.String())
				}
				keys = nil
				for iface, conc := range cs.Impls {
					if strings.HasPrefix(c.callee, "("+iface+").") {
						keys = append(keys, "("+conc+")."+c.callee[len(iface)+3:])
					}
				}
				keys = append(keys, c.callee)
			}
			for _, ck := range keys {
				if ct := cs.Lookup(ck); ct != nil && !ct.Inline {
					if len(ct.Modifies) > 0 {
						return "reaches " + shortFn(ck) + ", whose contract has a modifies clause"
					}
					continue
				}
				if cf := p.FindFunc(ck); cf != nil && cf.Pkg != nil && p.isRepoPkg(cf.Pkg.Pkg.Path()) {
					if r := visit(cf); r != "" {
						return r
					}
				} else if c.invoke && strings.Contains(ck, "Keeper") && !strings.Contains(ck, "KVStore") {
					// a keeper interface method without contract: unknown effect
					if cs.Lookup(ck) == nil {
						return "calls the interface method " + shortFn(ck) + ", which has no contract"
					}
				}
			}
		}
		for _, af := range f.AnonFuncs {
			if r := visit(af); r != "" {
				return r
			}
		}
		return ""
	}
	r := visit(fn)
	mcsCache[fn] = r
	return r
}

// ---------------------------------------------------------------- C15 / C14: the SDK-facing wrappers only delegate

// frameModuleEntryPoints: the AppModule methods the SDK calls at genesis and at block boundaries do nothing but decode
// the document and hand over to the function that is under contract: InitGenesis / ExportGenesis / ValidateGenesis
// call their module function exactly once (ValidateGenesis returns its result), enterprise BeginBlock calls BeginBlocker,
// and every other BeginBlock / EndBlock of the four modules calls no repository function at all.
func frameModuleEntryPoints(p *Program, cs *ContractSet) []*FrameResult {
	var bad []string
	type want struct{ method, target string }
	mods := map[string][]want{
		"enterprise": {{"(AppModule).InitGenesis", "x/enterprise.InitGenesis"}, {"(AppModule).ExportGenesis", "x/enterprise.ExportGenesis"}, {"(AppModuleBasic).ValidateGenesis", "x/enterprise/types.ValidateGenesis"}, {"(AppModule).BeginBlock", "x/enterprise.BeginBlocker"}, {"(AppModule).EndBlock", ""}},
		"wrkchain":   {{"(AppModule).InitGenesis", "x/wrkchain.InitGenesis"}, {"(AppModule).ExportGenesis", "x/wrkchain.ExportGenesis"}, {"(AppModuleBasic).ValidateGenesis", "x/wrkchain/types.ValidateGenesis"}, {"(AppModule).BeginBlock", ""}, {"(AppModule).EndBlock", ""}},
		"beacon":     {{"(AppModule).InitGenesis", "x/beacon.InitGenesis"}, {"(AppModule).ExportGenesis", "x/beacon.ExportGenesis"}, {"(AppModuleBasic).ValidateGenesis", "x/beacon/types.ValidateGenesis"}, {"(AppModule).BeginBlock", ""}, {"(AppModule).EndBlock", ""}},
		"stream":     {{"(AppModule).InitGenesis", "(x/stream/keeper.Keeper).InitGenesis"}, {"(AppModule).ExportGenesis", "(x/stream/keeper.Keeper).ExportGenesis"}, {"(AppModuleBasic).ValidateGenesis", "(x/stream/types.GenesisState).Validate"}, {"(AppModule).BeginBlock", ""}, {"(AppModule).EndBlock", ""}},
	}
	n := 0
	for _, m := range []string{"enterprise", "wrkchain", "beacon", "stream"} {
		pkg := p.byPath[modPfx+"x/"+m]
		if pkg == nil {
			bad = append(bad, "package x/"+m+" not loaded")
			continue
		}
		for _, w := range mods[m] {
			recv := strings.TrimSuffix(strings.TrimPrefix(strings.SplitN(w.method, ".", 2)[0], "("), ")")
			name := strings.SplitN(w.method, ".", 2)[1]
			var fn *ssa.Function
			if t := pkg.Type(recv); t != nil {
				fn = p.prog.LookupMethod(t.Type(), pkg.Pkg, name)
			}
			if fn == nil || len(fn.Blocks) == 0 {
				bad = append(bad, fmt.Sprintf("x/%s.%s not found", m, w.method))
				continue
			}
			n++
			var hits []ssa.Value
			for _, c := range callsOf(fn) {
				callee := shortFn(c.callee)
				if w.target != "" && callee == w.target {
					if v, ok := c.instr.(ssa.Value); ok {
						hits = append(hits, v)
					} else {
						hits = append(hits, nil)
					}
					continue
				}
				if !c.invoke {
					if cf := p.FindFunc(c.callee); cf != nil && cf.Pkg != nil && p.isRepoPkg(cf.Pkg.Pkg.Path()) && !strings.HasSuffix(cf.Pkg.Pkg.Path(), "/types") {
						bad = append(bad, fmt.Sprintf("x/%s.%s also calls %s", m, w.method, callee))
					}
				}
			}
			if w.target == "" {
				continue
			}
			if len(hits) != 1 {
				bad = append(bad, fmt.Sprintf("x/%s.%s calls %s %d times (expected exactly once)", m, w.method, w.target, len(hits)))
				continue
			}
			if name != "ValidateGenesis" {
				// the call happens on every path: its block dominates every return
				callBlk := hits[0].(ssa.Instruction).Block()
				for _, b := range fn.Blocks {
					if len(b.Instrs) == 0 {
						continue
					}
					if _, isRet := b.Instrs[len(b.Instrs)-1].(*ssa.Return); isRet && !callBlk.Dominates(b) {
						bad = append(bad, fmt.Sprintf("x/%s.%s can return without calling %s", m, w.method, w.target))
						break
					}
				}
			}
			if name == "ValidateGenesis" {
				returned := false
				for _, b := range fn.Blocks {
					for _, in := range b.Instrs {
						if r, ok := in.(*ssa.Return); ok && len(r.Results) == 1 && r.Results[0] == hits[0] {
							returned = true
						}
					}
				}
				if !returned {
					bad = append(bad, fmt.Sprintf("x/%s.%s does not return the result of %s", m, w.method, w.target))
				}
			}
		}
	}
	_ = n
	return []*FrameResult{res("module-entry-points-delegate", "AppModule InitGenesis/ExportGenesis/ValidateGenesis of the four modules call the function under contract exactly once (ValidateGenesis returns its verdict), enterprise BeginBlock calls BeginBlocker, all other Begin/EndBlock hooks call no module code", bad)}
}

// ---------------------------------------------------------------- C20: what the list queries do around the pagination call

// frameListQueries: the callbacks of the six paginated list queries are under contract; this obligation covers the
// function around them.  Each calls the SDK pagination exactly once, on prefix.NewStore(ctx.KVStore(storeKey), P) with P
// the section the query lists, with the request's own Pagination, and with the contracted function literal as callback;
// apart from that it neither loops nor re-slices nor appends, so the response carries what the pagination collected.
func frameListQueries(p *Program, cs *ContractSet) []*FrameResult {
	type want struct{ fn, prefix string }
	wants := []want{
		{"(x/stream/keeper.Keeper).Streams", "x/stream/types.StreamKeyPrefix"},
		{"(x/stream/keeper.Keeper).AllStreamsForSender", "x/stream/types.StreamKeyPrefix"},
		{"(x/stream/keeper.Keeper).AllStreamsForReceiver", "x/stream/types.GetStreamsByReceiverKey"},
		{"(x/wrkchain/keeper.Keeper).WrkChainsFiltered", "x/wrkchain/types.RegisteredWrkChainPrefix"},
		{"(x/beacon/keeper.Keeper).BeaconsFiltered", "x/beacon/types.RegisteredBeaconPrefix"},
		{"(x/enterprise/keeper.Keeper).EnterpriseUndPurchaseOrders", "x/enterprise/types.PurchaseOrderIDKeyPrefix"},
	}
	var bad []string
	for _, w := range wants {
		fn := p.FindFunc(strings.Replace(w.fn, "(x/", "("+modPfx+"x/", 1))
		if fn == nil || len(fn.Blocks) == 0 {
			bad = append(bad, w.fn+" not found")
			continue
		}
		if len(findLoops(fn).headers) > 0 {
			bad = append(bad, w.fn+" contains a loop of its own")
		}
		var pag []ssa.CallInstruction
		for _, b := range fn.Blocks {
			for _, in := range b.Instrs {
				switch x := in.(type) {
				case *ssa.Slice:
					bad = append(bad, fmt.Sprintf("%s re-slices a value at %s", w.fn, posOf(p, in)))
				case ssa.CallInstruction:
					com := x.Common()
					if bi, ok := com.Value.(*ssa.Builtin); ok && (bi.Name() == "append" || bi.Name() == "copy") {
						bad = append(bad, fmt.Sprintf("%s calls %s at %s", w.fn, bi.Name(), posOf(p, in)))
					}
					if cf := com.StaticCallee(); cf != nil && strings.Contains(cf.String(), "cosmos-sdk/types/query.") && strings.Contains(cf.String(), "FilteredPaginate") {
						pag = append(pag, x)
					}
				}
			}
		}
		if len(pag) != 1 {
			bad = append(bad, fmt.Sprintf("%s calls the SDK pagination %d times (expected once)", w.fn, len(pag)))
			continue
		}
		args := pag[0].Common().Args
		// the store argument: the first argument whose type is a KVStore
		var storeArg, pageArg, cbArg ssa.Value
		for _, a := range args {
			t := a.Type().String()
			switch {
			case strings.Contains(t, "KVStore") || strings.Contains(t, "prefix.Store"):
				if storeArg == nil {
					storeArg = a
				}
			case strings.Contains(t, "PageRequest"):
				pageArg = a
			}
			if _, ok := a.(*ssa.MakeClosure); ok && cbArg == nil {
				cbArg = a
			} else if f, ok := a.(*ssa.Function); ok && cbArg == nil && f.Parent() == fn {
				cbArg = a
			}
		}
		okStore := false
		if mi, ok := storeArg.(*ssa.MakeInterface); ok {
			storeArg = mi.X
		}
		if c, ok := storeArg.(*ssa.Call); ok && c.Common().StaticCallee() != nil && strings.HasSuffix(c.Common().StaticCallee().String(), "store/prefix.NewStore") {
			a := c.Common().Args
			parent, pfx := a[0], a[1]
			if mi, ok := parent.(*ssa.MakeInterface); ok {
				parent = mi.X
			}
			isKV := false
			if pc, ok := parent.(*ssa.Call); ok && pc.Common().IsInvoke() == false && pc.Common().StaticCallee() != nil && strings.HasSuffix(pc.Common().StaticCallee().String(), ".KVStore") {
				isKV = true
			} else if pc, ok := parent.(*ssa.Call); ok && pc.Common().IsInvoke() && pc.Common().Method.Name() == "KVStore" {
				isKV = true
			}
			got := ""
			switch x := pfx.(type) {
			case *ssa.UnOp:
				if g, ok := x.X.(*ssa.Global); ok {
					got = shortFn(g.Pkg.Pkg.Path() + "." + g.Name())
				}
			case *ssa.Call:
				if cf := x.Common().StaticCallee(); cf != nil {
					got = shortFn(cf.String())
				}
			}
			if isKV && got == w.prefix {
				okStore = true
			} else {
				bad = append(bad, fmt.Sprintf("%s paginates over prefix %q (on the module store: %v); expected %s on ctx.KVStore(storeKey)", w.fn, got, isKV, w.prefix))
			}
		}
		if !okStore && len(bad) == 0 || storeArg == nil {
			bad = append(bad, w.fn+": the paginated store is not prefix.NewStore(ctx.KVStore(storeKey), "+w.prefix+")")
		}
		okPage := false
		if u, ok := pageArg.(*ssa.UnOp); ok {
			if fa, ok := u.X.(*ssa.FieldAddr); ok {
				if st, ok := fa.X.Type().Underlying().(*types.Pointer); ok {
					if s, ok := st.Elem().Underlying().(*types.Struct); ok && s.Field(fa.Field).Name() == "Pagination" {
						if isParamOrItsCell(fa.X) {
							okPage = true
						}
					}
				}
			}
		}
		if !okPage {
			bad = append(bad, w.fn+": the page request handed to the pagination is not the request's own Pagination field")
		}
		okCb := false
		switch x := cbArg.(type) {
		case *ssa.MakeClosure:
			okCb = x.Fn.(*ssa.Function).Name() == fn.Name()+"$1"
		case *ssa.Function:
			okCb = x.Name() == fn.Name()+"$1"
		}
		if !okCb {
			bad = append(bad, w.fn+": the callback handed to the pagination is not the function literal under contract ("+fn.Name()+"$1)")
		}
	}
	return []*FrameResult{res("list-queries-hand-over-to-pagination", "each of the six paginated list queries calls the SDK pagination exactly once, over the prefix store of the section it lists, with the request's own page request and the contracted callback, and neither loops nor re-slices nor appends itself", uniq(bad))}
}

// isParamOrItsCell: v is a parameter, or a load from a local cell that only ever holds a parameter (a parameter captured
// by a function literal lives in such a cell).
func isParamOrItsCell(v ssa.Value) bool {
	if _, ok := v.(*ssa.Parameter); ok {
		return true
	}
	u, ok := v.(*ssa.UnOp)
	if !ok {
		return false
	}
	al, ok := u.X.(*ssa.Alloc)
	if !ok {
		return false
	}
	stores := 0
	for _, r := range *al.Referrers() {
		if st, ok := r.(*ssa.Store); ok && st.Addr == al {
			stores++
			if _, isParam := st.Val.(*ssa.Parameter); !isParam {
				return false
			}
		}
	}
	return stores == 1
}
