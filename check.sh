#!/bin/sh
# usage: check.sh <property id> [quick|thorough]
# Rebuilds the verifier if needed, regenerates every obligation of the property from /repo's
# current working tree (build tag verif) and discharges them with z3 / z3-new / cvc5.
set -u
PROP="$1"; TIER="${2:-quick}"
export GOFLAGS=-mod=mod GOPROXY=off GOSUMDB=off GOTOOLCHAIN=local CGO_ENABLED=0
cd /verif || exit 2
if [ ! -x /verif/bin/govc ] || [ -n "$(find /verif/govc -name '*.go' -newer /verif/bin/govc 2>/dev/null | head -1)" ]; then
  (cd /verif/govc && go build -o /verif/bin/govc .) || { echo "govc build failed"; exit 2; }
fi
exec /verif/bin/govc check -prop "$PROP" -tier "$TIER"
