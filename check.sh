#!/bin/sh
# usage: check.sh <property id> [quick|thorough]
# Rebuilds the verifier if needed, regenerates every obligation of the property from /repo's current working tree
# (build tag verif) and discharges them with z3 / z3-new / cvc5.  Thorough: longer time-outs, all three solvers on every
# obligation, a cover for every return path, and the must-fail self-test (seeded changes of this property applied to a
# scratch worktree of /repo's HEAD, never to /repo) and the BOUNDED differential validation of the assumed contracts
# against the real libraries (/verif/validate), both recorded in the evidence.
set -u
PROP="$1"; TIER="${2:-quick}"
[ "${VERIF_TIER:-}" = "quick" ] && TIER=quick
[ "${VERIF_TIER:-}" = "thorough" ] && TIER=thorough
export GOFLAGS=-mod=mod GOPROXY=off GOSUMDB=off GOTOOLCHAIN=local CGO_ENABLED=0
cd /verif || exit 2
if [ ! -x /verif/bin/govc ] || [ -n "$(find /verif/govc -name '*.go' -newer /verif/bin/govc 2>/dev/null | head -1)" ]; then
  (cd /verif/govc && go build -o /verif/bin/govc .) || { echo "govc build failed"; exit 2; }
fi
if [ "$TIER" = "thorough" ]; then
  ST=$(mktemp /tmp/govc-selftest-XXXXXX.json)
  /verif/seeded/selftest.sh "$PROP" "$ST" >/dev/null 2>&1
  VL=$(mktemp /tmp/govc-validate-XXXXXX.txt)
  /verif/validate/run.sh > "$VL" 2>&1; echo "exit=$?" >> "$VL"
  GOVC_SELFTEST="$ST" GOVC_VALIDATION="$VL" /verif/bin/govc check -prop "$PROP" -tier "$TIER"; RC=$?
  rm -f "$ST" "$VL"
  exit $RC
fi
exec /verif/bin/govc check -prop "$PROP" -tier "$TIER"
